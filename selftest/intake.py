#!/venv/bin/python
"""Intake of a candidate seeded change produced by an independent sub-agent.

    selftest/intake.py <dir with patch.diff, demo.py, notes.md> <new id> <property>

Confirms, in a scratch worktree of /repo HEAD outside /repo and /verif:
  1. demo.py exits 0 on the clean tree,
  2. the patch applies; demo.py exits non-zero with it,
  3. the existing test suite still passes with it (failures are re-run serially
     once: hypothesis wall-clock deadlines fire at random on a loaded machine),
and only then stores /verif/seeded/<id>/{patch.diff, demo.py, notes.md, meta.json}.
"""
import json
import os
import re
import shutil
import subprocess
import sys
import tempfile

HERE = os.path.dirname(os.path.dirname(os.path.abspath(__file__)))
REPO = "/repo"
PY = "/venv/bin/python"


def sh(cmd, **kw):
    return subprocess.run(cmd, capture_output=True, text=True, **kw)


def suite(scratch):
    p = sh([PY, "-m", "pytest", "-q", "-p", "no:cacheprovider", "--timeout=900", "-n", "8",
            "-rf"], cwd=scratch, timeout=3600)
    tail = [ln for ln in p.stdout.splitlines() if re.search(r"\d+ passed", ln)]
    summary = tail[-1] if tail else p.stdout[-300:]
    failed = [f.strip() for f in re.findall(r"^FAILED (.+?)(?: - .*)?$", p.stdout, flags=re.M)]
    rerun = None
    if failed:
        q = sh([PY, "-m", "pytest", "-q", "-p", "no:cacheprovider", "--timeout=900"] + failed,
               cwd=scratch, timeout=3600)
        t2 = [ln for ln in q.stdout.splitlines() if re.search(r"\d+ (passed|failed)", ln)]
        rerun = t2[-1] if t2 else q.stdout[-300:]
    m = re.search(r"(\d+) passed", summary)
    passed = int(m.group(1)) if m else 0
    m2 = re.search(r"(\d+) passed", rerun or "")
    ok = (not failed and passed >= 2457) or (
        failed and m2 and int(m2.group(1)) == len(failed) and "failed" not in rerun
        and passed + len(failed) >= 2457)
    return bool(ok), summary, failed, rerun


def main():
    src, mid, prop = sys.argv[1], sys.argv[2], sys.argv[3]
    needs = sys.argv[4] if len(sys.argv) > 4 else ""
    scratch = tempfile.mkdtemp(prefix="cxv-intake-")
    os.rmdir(scratch)
    r = sh(["git", "-C", REPO, "worktree", "add", "--detach", "-f", scratch, "HEAD"])
    if r.returncode:
        print(r.stderr)
        return 2
    head = sh(["git", "-C", REPO, "rev-parse", "--short", "HEAD"]).stdout.strip()
    ran = []
    try:
        demo = os.path.join(src, "demo.py")
        patch = os.path.join(src, "patch.diff")
        d0 = sh([PY, demo, scratch], timeout=900, cwd=tempfile.gettempdir())
        ran.append("demo on clean tree: exit %d" % d0.returncode)
        if d0.returncode != 0:
            print("REJECT %s: demo fails on the clean tree (exit %d)\n%s" % (
                mid, d0.returncode, (d0.stdout + d0.stderr)[-500:]))
            return 1
        a = sh(["git", "-C", scratch, "apply", patch])
        if a.returncode:
            print("REJECT %s: patch does not apply: %s" % (mid, a.stderr[:300]))
            return 1
        d1 = sh([PY, demo, scratch], timeout=900, cwd=tempfile.gettempdir())
        ran.append("demo with patch: exit %d" % d1.returncode)
        if d1.returncode == 0:
            print("REJECT %s: demo passes with the patch applied" % mid)
            return 1
        imp = sh([PY, "-c", "import coxeter, sys; print(coxeter.__file__)"], cwd=scratch)
        if imp.returncode or not imp.stdout.strip().startswith(scratch):
            print("REJECT %s: package does not import from the scratch tree" % mid)
            return 1
        ok, summary, failed, rerun = suite(scratch)
        ran.append("pytest -n 8 with patch: %s" % summary.strip())
        if failed:
            ran.append("serial re-run of %d failed tests: %s" % (len(failed), (rerun or "").strip()))
        if not ok:
            print("REJECT %s: test suite does not pass with the patch: %s / %s / %s" % (
                mid, summary, failed[:5], rerun))
            return 1
        out = os.path.join(HERE, "seeded", mid)
        os.makedirs(out, exist_ok=True)
        shutil.copy(patch, os.path.join(out, "patch.diff"))
        shutil.copy(demo, os.path.join(out, "demo.py"))
        if os.path.exists(os.path.join(src, "notes.md")):
            shutil.copy(os.path.join(src, "notes.md"), os.path.join(out, "notes.md"))
        files = sorted(set(re.findall(r"^\+\+\+ b/(\S+)", open(patch).read(), flags=re.M)))
        meta = {"id": mid, "property": prop, "breaks": prop, "files": files,
                "needs_to_manifest": needs, "based_on_repo_commit": head,
                "source": "independent sub-agent given only the property text and a scratch "
                          "worktree",
                "confirmed": ran, "demo_output_with_patch": (d1.stdout + d1.stderr)[-600:]}
        json.dump(meta, open(os.path.join(out, "meta.json"), "w"), indent=1)
        print("ACCEPT %s (%s): %s" % (mid, prop, "; ".join(ran)))
        return 0
    finally:
        sh(["git", "-C", REPO, "worktree", "remove", "--force", scratch])
        shutil.rmtree(scratch, ignore_errors=True)
        sh(["git", "-C", REPO, "worktree", "prune"])


if __name__ == "__main__":
    sys.exit(main())
