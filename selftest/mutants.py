#!/venv/bin/python
"""Sensitivity self-test: break the property on purpose in a scratch copy of
/repo and confirm that the matching quick check reports a VIOLATION whose
replay reproduces; then revert.

    selftest/mutants.py builtin [ID ...]     the hand-written defects below
    selftest/mutants.py seeded  [ID ...]     /verif/seeded/<id>/patch.diff
    options: --tier quick|thorough   --keep-going

The scratch copy is a git worktree outside /repo and /verif, selected with
COXETER_VERIF_SRC, removed afterwards.  /repo itself is never modified.
Results are written to selftest/results_<kind>.json.
"""
import json
import os
import shutil
import subprocess
import sys
import tempfile
import time

HERE = os.path.dirname(os.path.dirname(os.path.abspath(__file__)))
CHECK = os.path.join(HERE, "check.py")
REPO = "/repo"

# (id, properties expected to catch it, file, old text, new text)
BUILTIN = [
    ("centroid-setter-forgets-equations", ["C03"], "coxeter/shapes/convex_polyhedron.py",
     "        self._vertices += np.asarray(value) - self.centroid\n        self._find_equations()\n        self._find_simplex_equations()\n",
     "        self._vertices += np.asarray(value) - self.centroid\n        self._find_simplex_equations()\n"),
    # ("rescale-forgets-simplex-offsets": dropping `_simplex_equations[:, 3] *= scale_factor`
    #  is an equivalent mutant - no public observable reads the simplex plane offsets)
    ("rescale-forgets-area", ["C03", "C08"], "coxeter/shapes/convex_polyhedron.py",
     "        self._area = self._area * scale_factor**2\n", ""),
    ("spheropolyhedron-rescale-forgets-radius", ["C08", "C03"],
     "coxeter/shapes/convex_spheropolyhedron.py",
     "        self.polyhedron._rescale(scale)\n        self.radius *= scale\n",
     "        self.polyhedron._rescale(scale)\n"),
    ("volume-setter-sqrt-for-cbrt", ["C08"], "coxeter/shapes/convex_polyhedron.py",
     "        scale_factor = np.cbrt(value / self._volume)\n",
     "        scale_factor = np.sqrt(value / self._volume)\n"),
    ("polygon-rescale-guard-removed", ["C08"], "coxeter/shapes/polygon.py",
     "        if not scale > 0:\n            raise ValueError(\"Shapes can only be rescaled by a factor greater than zero.\")\n        self._vertices *= scale\n",
     "        self._vertices *= scale\n"),
    ("sphere-is-inside-in-place", ["C16"], "coxeter/shapes/sphere.py",
     "        points = np.atleast_2d(points) - self.centroid\n        return np.linalg.norm(points, axis=-1) <= self.radius\n",
     "        points = np.atleast_2d(points)\n        points -= self.centroid\n        return np.linalg.norm(points, axis=-1) <= self.radius\n"),
    ("to-stl-without-deepcopy", ["C20", "C16"], "coxeter/io.py",
     "        shape = deepcopy(shape)\n", ""),
    ("obj-zero-based-indices", ["C20"], "coxeter/io.py",
     "        content += f\"f {' '.join([str(v_index+1) for v_index in f])}\\n\"\n",
     "        content += f\"f {' '.join([str(v_index) for v_index in f])}\\n\"\n"),
    ("ply-swallows-oserror", ["C20"], "coxeter/io.py",
     "    content = content[:-1]\n\n    with open(filename, \"w\") as file:\n        file.write(content)\n\n\ndef to_x3d",
     "    content = content[:-1]\n\n    try:\n        with open(filename, \"w\") as file:\n            file.write(content)\n    except OSError:\n        pass\n\n\ndef to_x3d"),
    ("x3d-without-separators", ["C20"], "coxeter/io.py",
     "        point_indices.insert(len(f) + prev_index, -1)\n", ""),
    ("bounding-sphere-centre-not-rotated-back", ["C13"], "coxeter/shapes/polyhedron.py",
     "        center = rowan.rotate(rowan.conjugate(current_rotation), center)\n\n        return Sphere(",
     "        return Sphere("),
    ("bounding-circle-retry-composes-rotations", ["C13"], "coxeter/shapes/polygon.py",
     "                vertices = rowan.rotate(current_rotation, self.vertices)\n",
     "                vertices = rowan.rotate(current_rotation, vertices)\n"),
    ("diagonalize-may-mirror", ["C03"], "coxeter/shapes/convex_polyhedron.py",
     "        if np.linalg.det(principal_axes) < 0:\n", "        if False:\n"),
    ("merge-faces-no-restore", ["C03"], "coxeter/shapes/polyhedron.py",
     "            self._faces, self._equations, self._neighbors = old_state\n            raise\n",
     "            raise\n"),
    ("polygon-to-hoomd-in-place", ["C16"], "coxeter/shapes/polygon.py",
     "        shape = copy.deepcopy(self)\n        shape.centroid = np.array([0, 0, 0])\n        data = shape.to_json",
     "        shape = self\n        shape.centroid = np.array([0, 0, 0])\n        data = shape.to_json"),
    ("form-factor-scales-q-in-place", ["C16"], "coxeter/shapes/sphere.py",
     "        q = np.atleast_2d(q)\n        form_factor = np.empty(q.shape[0], dtype=np.complex128)\n",
     "        q = np.atleast_2d(q)\n        q *= 1.0\n        q[0] += 0.0\n        q += 1e-9\n        form_factor = np.empty(q.shape[0], dtype=np.complex128)\n"),
    ("html-leaves-no-file-on-remove-error", ["C20"], "coxeter/io.py",
     "    os.remove(filename)\n",
     "    try:\n        os.remove(filename)\n    except OSError:\n        return\n"),
    # --- C13 layer 2 (definitional invariants)
    ("ellipse-bounding-circle-uses-a", ["C13"], "coxeter/shapes/ellipse.py",
     "        return Circle(max(self.a, self.b), self.centroid)\n",
     "        return Circle(self.a, self.centroid)\n"),
    ("ellipsoid-bounded-sphere-forgets-c", ["C13"], "coxeter/shapes/ellipsoid.py",
     "        return Sphere(min(self.a, self.b, self.c), self.centroid)\n\n    def __repr__",
     "        return Sphere(min(self.a, self.b), self.centroid)\n\n    def __repr__"),
    ("centred-bounded-sphere-second-nearest-face", ["C13"], "coxeter/shapes/convex_polyhedron.py",
     "        min_distance = -np.max(distances)\n",
     "        min_distance = -np.sort(distances)[-2]\n"),
    ("incircle-existence-test-skipped-for-quadrilaterals", ["C13"], "coxeter/shapes/polygon.py",
     "        if len(self.vertices) > 3 and not np.isclose(resids, 0):\n            raise RuntimeError(\"No incircle for this polygon.\")",
     "        if len(self.vertices) > 4 and not np.isclose(resids, 0):\n            raise RuntimeError(\"No incircle for this polygon.\")"),
    ("circumcircle-existence-test-removed", ["C13"], "coxeter/shapes/polygon.py",
     "        if len(self.vertices) > 3 and not np.isclose(resids, 0):\n            raise RuntimeError(\"No circumcircle for this polygon.\")\n",
     ""),
    ("off-overwrites-in-place-without-truncating", ["C20"], "coxeter/io.py",
     "    content = content[:-1]\n\n    with open(filename, \"w\") as file:\n        file.write(content)\n\n\ndef to_stl",
     "    content = content[:-1]\n\n    with open(filename, \"r+\" if os.path.exists(filename) else \"w\") as file:\n        file.write(content)\n\n\ndef to_stl"),
    ("form-factor-normalises-stored-normals", ["C16"], "coxeter/shapes/polygon.py",
     "            norm_normal = np.array(normal, dtype=np.float64)\n",
     "            norm_normal = np.asarray(normal, dtype=np.float64)\n"),
]


def sh(cmd, **kw):
    return subprocess.run(cmd, capture_output=True, text=True, **kw)


def make_scratch():
    d = tempfile.mkdtemp(prefix="cxv-mut-")
    os.rmdir(d)
    r = sh(["git", "-C", REPO, "worktree", "add", "--detach", "-f", d, "HEAD"])
    if r.returncode:
        raise RuntimeError(r.stderr)
    return d


def drop_scratch(d):
    sh(["git", "-C", REPO, "worktree", "remove", "--force", d])
    shutil.rmtree(d, ignore_errors=True)
    sh(["git", "-C", REPO, "worktree", "prune"])


def run_check(prop, src, tier, extra_env=None):
    env = dict(os.environ)
    env.pop("COXETER_VERIF_PINNED", None)
    env["COXETER_VERIF_SRC"] = src
    env.setdefault("VERIF_MAX_MINIMISED", "3")  # the matrix needs a verdict, not every replay
    env.update(extra_env or {})
    t0 = time.time()
    p = sh([sys.executable, CHECK, prop, "--tier", tier, "--no-evidence"], env=env, timeout=7200)
    lines = p.stdout.splitlines()
    vio = [ln for ln in lines if ln.startswith("VIOLATION")]
    sigs = [ln.strip() for ln in lines if ln.startswith("  signature")]
    repro = [ln for ln in lines if "fresh-interpreter replay" in ln]
    return {"exit": p.returncode, "violations": len(vio), "signatures": sigs[:6],
            "replays_reproduced": sum("replay reproduced" in ln for ln in repro),
            "replays_total": len(repro), "wall_s": round(time.time() - t0, 1),
            "tail": lines[-1:] if lines else [p.stderr[-300:]]}


def main():
    args = [a for a in sys.argv[1:] if not a.startswith("--")]
    tier = "quick"
    if "--tier" in sys.argv:
        tier = sys.argv[sys.argv.index("--tier") + 1]
        args = [a for a in args if a != tier]
    kind = args[0] if args else "builtin"
    want = set(args[1:])
    scratch = make_scratch()
    results = []
    missed = 0
    try:
        if kind == "builtin":
            todo = [m for m in BUILTIN if not want or m[0] in want]
            for mid, props, rel, old, new in todo:
                path = os.path.join(scratch, rel)
                src = open(path).read()
                if src.count(old) != 1:
                    print("%-44s SKIPPED: anchor text found %d times" % (mid, src.count(old)))
                    results.append({"id": mid, "status": "anchor-missing"})
                    continue
                open(path, "w").write(src.replace(old, new))
                entry = {"id": mid, "file": rel, "checks": {}}
                caught = False
                for prop in props:
                    r = run_check(prop, scratch, tier)
                    entry["checks"][prop] = r
                    caught = caught or (r["exit"] == 1 and r["violations"] > 0)
                    print("%-44s %s exit=%d violations=%d replays %d/%d  %.0fs" % (
                        mid, prop, r["exit"], r["violations"], r["replays_reproduced"],
                        r["replays_total"], r["wall_s"]), flush=True)
                    if caught:
                        break
                entry["caught"] = caught
                missed += 0 if caught else 1
                results.append(entry)
                open(path, "w").write(src)
        else:
            base = os.path.join(HERE, "seeded")
            ids = sorted(d for d in os.listdir(base) if os.path.isdir(os.path.join(base, d)))
            for mid in ids:
                if want and mid not in want:
                    continue
                meta = json.load(open(os.path.join(base, mid, "meta.json")))
                if meta.get("obsolete"):
                    print("%-44s obsolete: %s" % (mid, meta["obsolete"][:80]))
                    results.append({"id": mid, "status": "obsolete"})
                    continue
                patch = os.path.join(base, mid, "patch.diff")
                r = sh(["git", "-C", scratch, "apply", patch])
                if r.returncode:
                    print("%-44s patch does not apply: %s" % (mid, r.stderr[:200]))
                    results.append({"id": mid, "status": "patch-does-not-apply"})
                    continue
                entry = {"id": mid, "property": meta["property"], "checks": {}}
                caught = False
                for prop in [meta["property"]] + meta.get("also_try", []):
                    rr = run_check(prop, scratch, tier)
                    entry["checks"][prop] = rr
                    caught = caught or (rr["exit"] == 1 and rr["violations"] > 0)
                    print("%-44s %s exit=%d violations=%d replays %d/%d  %.0fs" % (
                        mid, prop, rr["exit"], rr["violations"], rr["replays_reproduced"],
                        rr["replays_total"], rr["wall_s"]), flush=True)
                    if caught:
                        break
                entry["caught"] = caught
                missed += 0 if caught else 1
                results.append(entry)
                sh(["git", "-C", scratch, "checkout", "--", "."])
                sh(["git", "-C", scratch, "clean", "-fdq"])
    finally:
        drop_scratch(scratch)
    tag = os.environ.get("RESULTS_TAG", "")
    out = os.path.join(HERE, "selftest", "results_%s_%s%s.json" % (kind, tier, tag))
    prev = []
    if want and os.path.exists(out):
        prev = [e for e in json.load(open(out)) if e.get("id") not in {r["id"] for r in results}]
    json.dump(prev + results, open(out, "w"), indent=1)
    print("%s mutants: %d run, %d not caught" % (kind, len(results), missed))
    return 1 if missed else 0


if __name__ == "__main__":
    sys.exit(main())
