#!/venv/bin/python
"""Determinism self-test.

For every machine: the same run indices are executed in fresh interpreters under
different PYTHONHASHSEED values and worker counts (1, 4, 16) and, separately,
twice in the same configuration; the (spec hash, event-log digest) lists must be
identical pairwise.  Exit 0 iff no divergence.

    selftest/determinism.py [COUNT_PER_MACHINE] [PROP ...]
"""
import json
import os
import subprocess
import sys

HERE = os.path.dirname(os.path.dirname(os.path.abspath(__file__)))
CHECK = os.path.join(HERE, "check.py")
PROPS = ["C03", "C08", "C13", "C16", "C20"]
CONFIGS = [  # (label, PYTHONHASHSEED, workers)
    ("hash0-w1", "0", 1), ("hash0-w1-again", "0", 1), ("hash12345-w4", "12345", 4),
    ("hash777-w16", "777", 16), ("hashrandom-w16", "random", 16),
]


def run(prop, tier, start, count, hashseed, workers, seed):
    env = dict(os.environ)
    env.pop("COXETER_VERIF_PINNED", None)
    env["VERIF_HASHSEED"] = hashseed
    env["VERIF_WORKERS"] = str(workers)
    env["VERIF_SEED"] = str(seed)
    p = subprocess.run([sys.executable, CHECK, prop, "--tier", tier, "--digests", str(start),
                        str(count)], capture_output=True, text=True, env=env, timeout=3600)
    line = [ln for ln in p.stdout.splitlines() if ln.startswith("[[")]
    if not line:
        raise RuntimeError("no digest output: %s %s" % (p.stdout[-300:], p.stderr[-600:]))
    return json.loads(line[-1])


def main():
    count = int(sys.argv[1]) if len(sys.argv) > 1 else 500
    props = [p.upper() for p in sys.argv[2:]] or PROPS
    bad = 0
    for prop in props:
        for tier, start, seed in (("quick", 0, 0), ("thorough", 100000, 3)):
            n = count if tier == "quick" else max(50, count // 5)
            ref = None
            for label, hs, w in CONFIGS:
                got = run(prop, tier, start, n, hs, w, seed)
                harness = [g for g in got if g[3]]
                if ref is None:
                    ref = got
                    print("%s %-8s %-16s %d runs, %d distinct digests, %d harness issues" % (
                        prop, tier, label, len(got), len({g[2] for g in got}), len(harness)))
                    bad += len(harness)
                    continue
                diff = [(a, b) for a, b in zip(ref, got) if a[:3] != b[:3]]
                print("%s %-8s %-16s %d runs, divergent: %d" % (prop, tier, label, len(got),
                                                                 len(diff)))
                for a, b in diff[:3]:
                    print("   DIVERGENCE index %s: %s vs %s" % (a[0], a[1:3], b[1:3]))
                bad += len(diff)
    print("determinism: %s" % ("OK" if bad == 0 else "%d problems" % bad))
    return 1 if bad else 0


if __name__ == "__main__":
    sys.exit(main())
