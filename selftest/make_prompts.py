#!/usr/bin/env python3
"""Write the briefs handed to independent sub-agents that author seeded changes.

    selftest/make_prompts.py <wave tag> <outdir>  < focus.json

focus.json: {"c03": "focus text", ...} (one brief per key; the key's first three letters
name the property).  A brief contains the property text from properties.jsonl, the
environment notes and the deliverable format - nothing about /verif's machinery.
"""
import json
import os
import sys

HERE = os.path.dirname(os.path.dirname(os.path.abspath(__file__)))

T = '''You are helping to test a verification harness by writing realistic BUGS (seeded defects). Work ONLY inside the scratch git worktree {wt} (a checkout of the Python library glotzerlab/coxeter, a pure-Python computational-geometry library) and the output directory {out}. Do NOT read or touch /repo, /verif, or any other /tmp/w* directory; do not look for any verification machinery - your work must be independent of it. Do NOT use `git stash` (the stash is shared between worktrees); use `git diff > file`, `git apply`, `git apply -R` and `git checkout -- .` instead.

Environment: no network. Python is /venv/bin/python (numpy, scipy, rowan, miniball, pytest, pytest-xdist installed; coxeter is installed "editable" pointing at another tree, so to import THIS worktree run python with the worktree as current directory or with PYTHONPATH={wt}, and check `coxeter.__file__` starts with {wt}). The unedited test suite is run with:
    cd {wt} && /venv/bin/python -m pytest -q -p no:cacheprovider --timeout=900 -n 4
(about 1-2 minutes; baseline: 2457 passed, 5 skipped, and ~146 xfail-marked miniball tests that flip between xfailed/xpassed at random - that is normal. Rare hypothesis-deadline failures on a loaded machine are flakes: re-run the failing test alone.) The machine is shared: run the full suite only once per change.

The semantic property under attack ({pid} - "{title}"):

STATEMENT: {statement}

QUANTIFIED OVER: {quant}

WHY THE EXISTING TESTS CANNOT SETTLE IT: {why}

Your task: write THREE different, mutually independent changes to the library source (under coxeter/, not tests) that each BREAK this property while the package still imports and the existing test suite, unedited, still passes. Each change is applied alone to a clean tree. Requirements:
 * Realistic: the kind of slip a maintainer makes in a refactor, an optimisation, a "clean-up", a bug fix or a new feature - small diffs (1-20 lines), plausible, no obviously malicious code, no special-casing on magic values.
 * Each must need something SPECIFIC in order to manifest - a particular multi-step sequence of operations, a fault that real use meets at a particular point (an OSError from open/write/close/remove; numpy.linalg.LinAlgError out of the third-party miniball solver, which genuinely occurs - NOT an exception forced out of a numpy/scipy/rowan routine that cannot fail on valid input), an unusual-but-legal input or state, or two cooperating sites that each look fine alone. Ordinary one-call use on a typical shape must NOT expose it at once. Stay inside the range the property quantifies over (sizes 1e-3..1e3, placements within about 10 diameters of the origin unless the property says otherwise).
 * The three changes should differ in mechanism and in the code site they touch.
 * Focus area for you: {focus}.

Deliverables, for k = 1, 2, 3, in {out}/k/ :
 * patch.diff  - output of `git diff` against the clean HEAD of the worktree (must apply with `git apply` on a clean tree);
 * demo.py     - a small self-contained program: takes the path of a coxeter source tree as sys.argv[1], does sys.path.insert(0, sys.argv[1]) before importing coxeter, exercises the defect deterministically (seed any RNG; if you need miniball to fail, monkeypatch it inside the demo), prints what part of the property is violated, and exits 0 if the property holds (clean tree) and non-zero (e.g. 1) if it is violated (patched tree);
 * notes.md    - which clause is broken, what it needs in order to manifest, the commands you ran and their outcome.
Verify yourself for each change: demo exits 0 on the clean tree; non-zero with the patch; the full test suite passes with the patch. Restore the worktree to clean (`git checkout -- .`) between changes and at the end. Finish with a short summary listing, per change, a one-line title (kebab-case slug), the file touched, and what is needed to manifest it.'''


def main():
    tag, outdir = sys.argv[1], sys.argv[2]
    focus = json.load(sys.stdin)
    props = {}
    with open(os.path.join(HERE, "properties.jsonl")) as f:
        for line in f:
            p = json.loads(line)
            props[p["id"]] = p
    os.makedirs(outdir, exist_ok=True)
    for key, text in focus.items():
        p = props[key[:3].upper()]
        brief = T.format(wt="/tmp/%s-%s" % (tag, key), out="/tmp/%s-%s-out" % (tag, key),
                         pid=p["id"], title=p["title"], statement=p["statement"],
                         quant=p["quantifier"]["text"], why=p["why_tests_cant"], focus=text)
        with open(os.path.join(outdir, key + ".txt"), "w") as f:
            f.write(brief)
    print("%d briefs in %s" % (len(focus), outdir))


if __name__ == "__main__":
    main()
