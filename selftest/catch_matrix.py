#!/usr/bin/env python3
"""Rewrite §13 of DESIGN.md (which checks catch which seeded changes) from
selftest/results_seeded_*.json and seeded/*/meta.json."""
import json
import os
import re

HERE = os.path.dirname(os.path.dirname(os.path.abspath(__file__)))


def main():
    rows = []
    res = {}
    for tier in ("quick", "thorough"):
        p = os.path.join(HERE, "selftest", "results_seeded_%s.json" % tier)
        if os.path.exists(p):
            for e in json.load(open(p)):
                res.setdefault(e["id"], {})[tier] = e
    for mid in sorted(os.listdir(os.path.join(HERE, "seeded"))):
        mp = os.path.join(HERE, "seeded", mid, "meta.json")
        if not os.path.exists(mp):
            continue
        meta = json.load(open(mp))
        caught_by = []
        rules = set()
        for tier, e in sorted(res.get(mid, {}).items()):
            for prop, c in e.get("checks", {}).items():
                if c["exit"] == 1 and c["violations"]:
                    caught_by.append("%s %s" % (prop, tier))
                    for sg in c["signatures"]:
                        m = re.search(r'"rule": "([^"]+)"', sg)
                        if m:
                            rules.add(m.group(1))
        if meta.get("obsolete"):
            rows.append("| %s | %s | %s | %s | %s |" % (
                mid, meta["property"], "; ".join(meta["files"]).replace("coxeter/", ""),
                meta["needs_to_manifest"], "obsolete — " + meta["obsolete"]))
            continue
        rows.append("| %s | %s | %s | %s | %s |" % (
            mid, meta["property"], "; ".join(meta["files"]).replace("coxeter/", ""),
            meta["needs_to_manifest"], (", ".join(caught_by) + " (" + ", ".join(sorted(rules)) + ")")
            if caught_by else ("**not caught** — " + meta["not_caught_reason"]
                               if meta.get("not_caught_reason") else "**not caught**")))
    text = ("## 13. Seeded changes and which checks catch them **[as built]**\n\n"
            "Each change was written by an independent sub-agent that saw only the property text "
            "and its own scratch worktree (nothing from /verif); `selftest/intake.py` confirmed "
            "in a fresh scratch worktree that its demonstration passes on the clean tree, fails "
            "with the patch, and that the unedited suite still passes with the patch; "
            "`selftest/mutants.py seeded` then ran the registered check of that property against "
            "a scratch worktree with the patch applied (`COXETER_VERIF_SRC`), requiring exit 1, a "
            "VIOLATION line and a replay that reproduces in a fresh interpreter. Rules in "
            "parentheses are the oracle rules that fired.\n\n"
            "| seeded change | property | file(s) | needs, in order to manifest | caught by |\n"
            "|---|---|---|---|---|\n" + "\n".join(rows) + "\n")
    p = os.path.join(HERE, "DESIGN.md")
    s = open(p).read()
    if "## 13. Seeded changes" in s:
        s = s[:s.index("## 13. Seeded changes")]
    s = s.rstrip("\n") + "\n\n" + text
    open(p, "w").write(s)
    print("%d rows" % len(rows))


if __name__ == "__main__":
    main()
