"""Evidence writer: /verif/evidence/<id>.json per EVIDENCE.schema.json.

Every number is measured by this run.  /venv has no jsonschema, so the writer
asserts the required keys/types itself; the self-test validates the files
against the real schema with python3-vt.
"""

import json
import os

HERE = os.path.dirname(os.path.dirname(os.path.abspath(__file__)))

COMPONENTS = {
    "real": [
        "coxeter (all of it, imported from the working tree)",
        "numpy / scipy (Qhull, LAPACK) / rowan",
        "miniball's Welzl algorithm (behind the solver seam)",
        "CPython BufferedWriter/BufferedReader/TextIOWrapper layers, xml.etree",
    ],
    "stub": [
        "raw file layer + directory (SimFS: in-memory bytes, scripted faults)",
        "entropy: random / numpy.random global state seeded per operation; "
        "numpy.random.default_rng(), os.urandom deterministic",
        "clock: time.time/monotonic/perf_counter virtual (reads by SUT counted)",
    ],
}


def write(prop, tier, seed, machine, agg, violations, known_hits, wall):
    c = agg["counters"]
    faults = {k: v for k, v in sorted(c.items()) if k.startswith(("fs.", "solver.", "fault."))}
    reach = {k: len(v) for k, v in sorted(agg["sets"].items())}
    reach_examples = {k: sorted(v)[:12] for k, v in sorted(agg["sets"].items())}
    other = {k: v for k, v in sorted(c.items()) if not k.startswith(("fs.", "solver.", "fault."))}
    cov = {
        "evaluations": int(agg["runs"]),
        "distinct_nontrivial": int(len(agg["digests_nontrivial"])),
        "rule": machine.RULE,
        "samples": agg["samples"] or [{"note": "no non-trivial run in this batch"}],
        "steps": int(c.get("steps", 0)),
        "runs_per_hour": round(agg["runs"] / max(agg["wall_s"], 1e-9) * 3600),
        "seeds": {"VERIF_SEED": seed, "first_run_index": agg["first"],
                  "last_run_index": agg["last"],
                  "derivation": "run seed = sha256(VERIF_SEED, property, index)[:8]"},
        "simulated_time": "logical steps (%d operations, %d environment events); the system "
                          "has no timers; clock reads by the system under test: %d" % (
                              c.get("steps", 0), c.get("events", 0),
                              c.get("clock_reads_by_sut", 0)),
        "fault_kinds_fired": faults,
        "reach": reach,
        "reach_examples": reach_examples,
        "counters": other,
        "components": COMPONENTS,
        "workers": agg.get("workers"),
        "known_findings_hit": known_hits,
        "violation_signatures": violations,
        "harness_errors": len(agg["harness"]),
    }
    ev = {
        "property_id": prop,
        "tier": tier,
        "seed": int(seed),
        "level": "exploration",
        "coverage": cov,
        "assumptions": list(machine.ASSUMPTIONS),
        "wall_s": round(float(wall), 3),
        "violations": int(len(violations)),
    }
    # minimal self-validation (schema: required keys and the 'generic' block)
    assert ev["tier"] in ("quick", "thorough")
    assert isinstance(cov["evaluations"], int) and cov["evaluations"] >= 1
    assert isinstance(cov["samples"], list) and len(cov["samples"]) >= 1
    os.makedirs(os.path.join(HERE, "evidence"), exist_ok=True)
    path = os.path.join(HERE, "evidence", "%s.json" % prop)
    tmp = path + ".tmp"
    with open(tmp, "w") as f:
        json.dump(ev, f, indent=1, sort_keys=True, default=repr)
    os.replace(tmp, path)
    return path
