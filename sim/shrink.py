"""Minimisation of a failing run spec while the violation *signature* persists.

Order: ddmin over spec["steps"]; then per-step fault-script entries; then the
machine's own simplifications (arguments, base shape ladder), greedily, until a
fixed point or the time cap.
"""

import copy
import time

from .engine import run_one


def _fails(machine, spec, want_hash, stats):
    stats["tests"] += 1
    res = run_one(machine, spec)
    if res["harness"]:
        return False
    return any(v["hash"] == want_hash for v in res["violations"])


def ddmin_steps(machine, spec, want_hash, stats, deadline):
    steps = spec.get("steps", [])
    n = 2
    while len(steps) >= 2 and time.time() < deadline:
        size = max(1, len(steps) // n)
        chunks = [steps[i:i + size] for i in range(0, len(steps), size)]
        reduced = False
        for i in range(len(chunks)):
            cand_steps = [s for j, c in enumerate(chunks) if j != i for s in c]
            cand = dict(spec, steps=cand_steps)
            if _fails(machine, cand, want_hash, stats):
                steps = cand_steps
                spec = cand
                n = max(n - 1, 2)
                reduced = True
                break
            if time.time() > deadline:
                break
        if not reduced:
            if size == 1:
                break
            n = min(len(steps), n * 2)
    # try dropping the single remaining prefix steps one by one
    i = 0
    while i < len(spec.get("steps", [])) and len(spec["steps"]) > 1 and time.time() < deadline:
        cand = dict(spec, steps=spec["steps"][:i] + spec["steps"][i + 1:])
        if _fails(machine, cand, want_hash, stats):
            spec = cand
        else:
            i += 1
    return spec


def drop_faults(machine, spec, want_hash, stats, deadline):
    for si in range(len(spec.get("steps", []))):
        for key in ("fs_faults", "solver_script"):
            lst = spec["steps"][si].get(key)
            if not lst:
                continue
            k = 0
            while k < len(spec["steps"][si].get(key, [])) and time.time() < deadline:
                cand = copy.deepcopy(spec)
                cur = cand["steps"][si][key]
                if key == "solver_script":
                    if not cur[k]:
                        k += 1
                        continue
                    cur[k] = False
                    while cur and not cur[-1]:
                        cur.pop()
                else:
                    del cur[k]
                if _fails(machine, cand, want_hash, stats):
                    spec = cand
                    if key == "solver_script":
                        k += 1
                else:
                    k += 1
    return spec


def minimise(machine, spec, want_hash, cap_s=60.0):
    stats = {"tests": 0}
    deadline = time.time() + cap_s
    spec = copy.deepcopy(spec)
    if not _fails(machine, spec, want_hash, stats):
        return spec, dict(stats, reproduced=False)
    spec = ddmin_steps(machine, spec, want_hash, stats, deadline)
    spec = drop_faults(machine, spec, want_hash, stats, deadline)
    simplify = getattr(machine, "simplify", None)
    if simplify is not None:
        progress = True
        while progress and time.time() < deadline:
            progress = False
            for cand in simplify(spec):
                if time.time() > deadline:
                    break
                if _fails(machine, cand, want_hash, stats):
                    spec = cand
                    progress = True
                    break
        spec = ddmin_steps(machine, spec, want_hash, stats, deadline)
    return spec, dict(stats, reproduced=True)
