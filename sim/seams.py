"""Environment seams owned by the simulator.

E1  filesystem   builtins.open / io.open / os.remove / os.unlink / os.replace /
                 os.rename / os.stat / os.lstat / os.listdir -> SimFS (real Buffered*/TextIOWrapper layers over a
                 fake RawIOBase, fault script consulted on every raw call)
E2  randomness   random.seed / numpy.random.seed installed per operation;
                 numpy.random.default_rng() and os.urandom made deterministic
E3  solver       miniball.get_bounding_ball wrapped on the module object
E4  clock        time.time & friends return a virtual counter

Everything is installed by context managers around ONE operation of the system
under test and removed afterwards; nothing in /repo is modified.
"""

import builtins
import errno
import io
import os
import random
import sys
import time
from collections import Counter
from contextlib import contextmanager

import numpy as np

try:  # the solver is optional for coxeter; the seam is vacuous without it
    import miniball
except ImportError:  # pragma: no cover
    miniball = None


# --------------------------------------------------------------------------
# event log
# --------------------------------------------------------------------------
class EventLog:
    """Append-only log with a global sequence number.

    Logging never draws from a PRNG and never reads a clock.
    """

    def __init__(self, keep=True):
        self.events = []
        self.seq = 0
        self.keep = keep

    def add(self, *ev):
        self.seq += 1
        if self.keep:
            self.events.append([self.seq, *ev])

    def extend_note(self, key, value):
        self.add("note", key, value)


# --------------------------------------------------------------------------
# fault plan
# --------------------------------------------------------------------------
class FaultPlan:
    """Fault script for one step.

    entries: list of dicts ``{"on": call, "nth": k, "kind": kind, ...}``
    meaning "the k-th environment call of type ``call`` in this step suffers
    ``kind``".  ``hit(call)`` is asked on every environment call.
    """

    def __init__(self, entries=()):
        self.entries = [dict(e) for e in entries]
        self.counts = Counter()
        self.fired = []  # (call, nth, kind)

    def hit(self, call):
        n = self.counts[call]
        self.counts[call] += 1
        for e in self.entries:
            if e.get("on") == call and e.get("nth") == n and not e.get("_fired"):
                e["_fired"] = True
                self.fired.append((call, n, e["kind"]))
                return e
        return None


# --------------------------------------------------------------------------
# E1 filesystem
# --------------------------------------------------------------------------
_ERR = {
    "eacces": errno.EACCES,
    "enoent": errno.ENOENT,
    "emfile": errno.EMFILE,
    "enospc": errno.ENOSPC,
    "eio": errno.EIO,
    "erofs": errno.EROFS,
    "eisdir": errno.EISDIR,
}


def _oserror(kind, path=None):
    code = _ERR[kind]
    if path is None:
        return OSError(code, os.strerror(code) + " [simulated]")
    return OSError(code, os.strerror(code) + " [simulated]", path)


class SimRaw(io.RawIOBase):
    """The only simulated layer of a file: the raw byte sink/source."""

    def __init__(self, fs, rel, readable, writable, append):
        super().__init__()
        self._fs = fs
        self._rel = rel
        self._readable = readable
        self._writable = writable
        self._pos = len(fs.files[rel]) if append else 0
        self.name = rel
        self.mode = "rb+" if (readable and writable) else ("rb" if readable else "wb")

    # capabilities
    def readable(self):
        return self._readable

    def writable(self):
        return self._writable

    def seekable(self):
        return True

    def isatty(self):
        return False

    def fileno(self):
        raise io.UnsupportedOperation("simulated file has no descriptor")

    def _buf(self):
        fs = self._fs
        if self._rel not in fs.files:
            # unlinked while open: keep a private anonymous buffer, as POSIX does
            if not hasattr(self, "_orphan"):
                self._orphan = bytearray()
            return self._orphan
        return fs.files[self._rel]

    def seek(self, offset, whence=0):
        if whence == 0:
            self._pos = offset
        elif whence == 1:
            self._pos += offset
        else:
            self._pos = len(self._buf()) + offset
        if self._pos < 0:
            self._pos = 0
        return self._pos

    def tell(self):
        return self._pos

    def truncate(self, size=None):
        if size is None:
            size = self._pos
        del self._buf()[size:]
        return size

    def write(self, b):
        fs = self._fs
        if self.closed:
            raise ValueError("write to closed file")
        data = bytes(b)
        hit = fs.plan.hit("write")
        if fs.disk_full and len(data):
            fs.log.add("fs", "write", self._rel, len(data), "ENOSPC(sticky)")
            fs.note_fault("write", "enospc_sticky")
            raise _oserror("enospc")
        n = len(data)
        if hit is not None:
            kind = hit["kind"]
            if kind == "short":
                # legal short write: at least one byte, fewer than asked
                if n > 1:
                    n = max(1, min(n - 1, int(n * hit.get("frac", 0.5))))
                    fs.note_fault("write", "short")
                else:
                    fs.plan.fired.pop()  # not applicable, did not fire
            elif kind == "eintr":
                fs.log.add("fs", "write", self._rel, len(data), "EINTR")
                fs.note_fault("write", "eintr")
                raise InterruptedError(errno.EINTR, "Interrupted system call [simulated]")
            elif kind == "enospc":
                # the device fills up: part of the data may have gone out
                part = int(n * hit.get("frac", 0.0))
                if 0 < part < n:
                    self._store(data[:part])
                    fs.disk_full = True
                    fs.log.add("fs", "write", self._rel, len(data), "short->%d" % part)
                    fs.note_fault("write", "enospc")
                    return part
                fs.disk_full = True
                fs.log.add("fs", "write", self._rel, len(data), "ENOSPC")
                fs.note_fault("write", "enospc")
                raise _oserror("enospc")
            elif kind == "eio":
                fs.log.add("fs", "write", self._rel, len(data), "EIO")
                fs.note_fault("write", "eio")
                raise _oserror("eio")
        self._store(data[:n])
        fs.log.add("fs", "write", self._rel, len(data), n)
        fs.stats["raw_writes"] += 1
        return n

    def _store(self, data):
        buf = self._buf()
        end = self._pos + len(data)
        if self._pos > len(buf):
            buf.extend(b"\0" * (self._pos - len(buf)))
        buf[self._pos:end] = data
        self._pos = end

    def readinto(self, b):
        fs = self._fs
        hit = fs.plan.hit("read")
        buf = self._buf()
        avail = buf[self._pos:self._pos + len(b)]
        n = len(avail)
        if hit is not None:
            kind = hit["kind"]
            if kind == "eio":
                fs.log.add("fs", "read", self._rel, len(b), "EIO")
                fs.note_fault("read", "eio")
                raise _oserror("eio")
            if kind == "short":
                if n > 1:
                    n = max(1, n // 2)
                    fs.note_fault("read", "short")
                else:
                    fs.plan.fired.pop()
            elif kind == "eintr":
                fs.log.add("fs", "read", self._rel, len(b), "EINTR")
                fs.note_fault("read", "eintr")
                raise InterruptedError(errno.EINTR, "Interrupted system call [simulated]")
        b[:n] = avail[:n]
        self._pos += n
        fs.log.add("fs", "read", self._rel, len(b), n)
        return n

    def close(self):
        if self.closed:
            return
        fs = self._fs
        super().close()
        fs.open_handles.discard(id(self))
        hit = fs.plan.hit("close")
        if hit is not None and hit["kind"] == "eio" and self._writable:
            fs.log.add("fs", "close", self._rel, "EIO")
            fs.note_fault("close", "eio")
            raise _oserror("eio")
        elif hit is not None:
            fs.plan.fired.pop()
        fs.log.add("fs", "close", self._rel, "ok")


class SimFS:
    """In-memory directory rooted at ``root`` (a real, private directory).

    Paths outside ``root`` are passed through to the real functions, so
    imports, fonts etc. keep working while the seam is installed.
    """

    def __init__(self, root, log):
        self.root = os.path.realpath(root)
        self.log = log
        self.files = {}
        self.open_handles = set()
        self.plan = FaultPlan()
        self.bufsize = io.DEFAULT_BUFFER_SIZE
        self.text_chunk = None
        self.disk_full = False
        self.stats = Counter()
        self.faults_fired = Counter()
        self.opens_seen = 0
        self._real = {}

    # ----- helpers
    def note_fault(self, call, kind):
        self.faults_fired["fs.%s.%s" % (call, kind)] += 1

    def rel(self, path):
        """Relative name if ``path`` lies in the sandbox, else None."""
        if isinstance(path, int):
            return None
        try:
            p = os.fspath(path)
        except TypeError:
            return None
        if isinstance(p, bytes):
            p = os.fsdecode(p)
        ap = os.path.abspath(p)
        # realpath of the parent only (the file itself does not exist on disk)
        par = os.path.realpath(os.path.dirname(ap))
        ap = os.path.join(par, os.path.basename(ap))
        if ap == self.root or ap.startswith(self.root + os.sep):
            return os.path.relpath(ap, self.root)
        return None

    def begin_step(self, plan, bufsize, text_chunk=None):
        self.plan = plan
        self.bufsize = bufsize
        self.text_chunk = text_chunk
        self.disk_full = False
        self.opens_seen = 0

    # ----- the replaced entry points
    def open(self, file, mode="r", buffering=-1, encoding=None, errors=None,
             newline=None, closefd=True, opener=None):
        rel = self.rel(file)
        if rel is None or opener is not None:
            return self._real["open"](file, mode, buffering, encoding, errors,
                                      newline, closefd, opener)
        self.opens_seen += 1
        modes = set(mode)
        if modes - set("rwxabt+") or len(mode) > len(modes):
            raise ValueError("invalid mode: %r" % mode)
        binary = "b" in modes
        text = not binary
        creating = "x" in modes
        reading = "r" in modes
        writing = "w" in modes
        appending = "a" in modes
        updating = "+" in modes
        if text and binary:
            raise ValueError("can't have text and binary mode at once")
        if creating + reading + writing + appending != 1:
            raise ValueError("must have exactly one of create/read/write/append mode")
        if binary and encoding is not None:
            raise ValueError("binary mode doesn't take an encoding argument")
        if binary and errors is not None:
            raise ValueError("binary mode doesn't take an errors argument")
        if binary and newline is not None:
            raise ValueError("binary mode doesn't take a newline argument")
        hit = self.plan.hit("open")
        if hit is not None:
            kind = hit["kind"]
            if kind == "enospc" and reading:
                self.plan.fired.pop()
            else:
                self.log.add("fs", "open", rel, mode, kind.upper())
                self.note_fault("open", kind)
                raise _oserror(kind, os.fspath(file))
        if reading and rel not in self.files:
            self.log.add("fs", "open", rel, mode, "ENOENT(natural)")
            raise _oserror("enoent", os.fspath(file))
        if creating and rel in self.files:
            raise FileExistsError(errno.EEXIST, "File exists", os.fspath(file))
        if writing or (creating):
            self.files[rel] = bytearray()
        elif appending and rel not in self.files:
            self.files[rel] = bytearray()
        self.log.add("fs", "open", rel, mode, "ok")
        raw = SimRaw(self, rel, readable=reading or updating,
                     writable=writing or appending or creating or updating,
                     append=appending)
        self.open_handles.add(id(raw))
        self.stats["opens"] += 1
        line_buffering = False
        if buffering == 1 or (buffering < 0 and False):
            line_buffering = text
        if buffering == 0:
            if text:
                raise ValueError("can't have unbuffered text I/O")
            return raw
        size = self.bufsize if buffering < 0 or buffering == 1 else buffering
        if updating:
            buf = io.BufferedRandom(raw, size)
        elif reading:
            buf = io.BufferedReader(raw, size)
        else:
            buf = io.BufferedWriter(raw, size)
        if binary:
            return buf
        wrapper = io.TextIOWrapper(buf, encoding, errors, newline, line_buffering)
        wrapper.mode = mode
        if self.text_chunk:
            # tuning knob: how many characters the text layer batches before it
            # hands bytes to the buffered layer (CPython's own test hook)
            wrapper._CHUNK_SIZE = max(1, int(self.text_chunk))
        return wrapper

    def remove(self, path, *a, **k):
        rel = self.rel(path)
        if rel is None or a or k:
            return self._real["remove"](path, *a, **k)
        hit = self.plan.hit("remove")
        if hit is not None:
            self.log.add("fs", "remove", rel, hit["kind"].upper())
            self.note_fault("remove", hit["kind"])
            raise _oserror(hit["kind"], os.fspath(path))
        if rel not in self.files:
            self.log.add("fs", "remove", rel, "ENOENT(natural)")
            raise _oserror("enoent", os.fspath(path))
        del self.files[rel]
        self.stats["removes"] += 1
        self.log.add("fs", "remove", rel, "ok")

    def replace(self, src, dst, *a, **k):
        rs, rd = self.rel(src), self.rel(dst)
        if rs is None or rd is None or a or k:
            return self._real["replace"](src, dst, *a, **k)
        hit = self.plan.hit("replace")
        if hit is not None:
            self.log.add("fs", "replace", rs, rd, hit["kind"].upper())
            self.note_fault("replace", hit["kind"])
            raise _oserror(hit["kind"], os.fspath(src))
        if rs not in self.files:
            raise _oserror("enoent", os.fspath(src))
        self.files[rd] = self.files.pop(rs)
        self.log.add("fs", "replace", rs, rd, "ok")

    def stat(self, path, *a, **k):
        """os.stat / os.lstat for simulated files (os.path.exists, isfile, getsize,
        pathlib.Path.exists/stat all end here)."""
        rel = self.rel(path) if not k.get("dir_fd") else None
        try:
            empty = not isinstance(path, int) and len(os.fspath(path)) == 0
        except TypeError:
            empty = False
        if rel is None or empty:
            # (the empty path names nothing: the real call raises FileNotFoundError)
            return self._real["stat"](path, *a, **k)
        if rel in self.files:
            self.log.add("fs", "stat", rel, "file")
            size = len(self.files[rel])
            return os.stat_result((0o100644, 0, 0, 1, os.getuid(), os.getgid(), size, 0, 0, 0))
        prefix = rel.rstrip(os.sep) + os.sep
        if rel in (".", "") or any(f.startswith(prefix) for f in self.files):
            return self._real["stat"](self.root)
        # not a simulated file: a real stray file (seam bypass) or nothing at all.  Not
        # logged: libraries probe the working directory on first import (matplotlibrc),
        # which would make the log depend on what the process did before this run.
        return self._real["stat"](path, *a, **k)

    def listdir(self, path="."):
        rel = self.rel(path)
        real = self._real["listdir"](path)
        if rel is None:
            return real
        prefix = "" if rel in (".", "") else rel.rstrip(os.sep) + os.sep
        names = {f[len(prefix):].split(os.sep)[0] for f in self.files if f.startswith(prefix)}
        return sorted(set(real) | names)

    @contextmanager
    def installed(self):
        self._real = {
            "stat": os.stat,
            "lstat": os.lstat,
            "listdir": os.listdir,
            "open": builtins.open,
            "io_open": io.open,
            "remove": os.remove,
            "unlink": os.unlink,
            "replace": os.replace,
            "rename": os.rename,
        }
        builtins.open = self.open
        io.open = self.open
        os.remove = self.remove
        os.unlink = self.remove
        os.replace = self.replace
        os.rename = self.replace
        os.stat = self.stat
        os.lstat = self.stat
        os.listdir = self.listdir
        try:
            yield self
        finally:
            builtins.open = self._real["open"]
            io.open = self._real["io_open"]
            os.remove = self._real["remove"]
            os.unlink = self._real["unlink"]
            os.replace = self._real["replace"]
            os.rename = self._real["rename"]
            os.stat = self._real["stat"]
            os.lstat = self._real["lstat"]
            os.listdir = self._real["listdir"]

    def stray_real_files(self):
        """Files that appeared on the real disk inside the sandbox (seam bypass)."""
        out = []
        for dirpath, _, names in os.walk(self.root):
            for n in names:
                out.append(os.path.relpath(os.path.join(dirpath, n), self.root))
        return sorted(out)


# --------------------------------------------------------------------------
# E2 randomness
# --------------------------------------------------------------------------
_np_default_rng = np.random.default_rng
_os_urandom = os.urandom


class RngSeam:
    """Installs the schedule's seeds into every entropy source the SUT can reach."""

    def __init__(self, log):
        self.log = log
        self._k = 0

    def seed(self, pyseed, npseed):
        random.seed(int(pyseed))
        np.random.seed(int(npseed) % (2**32))
        self._k = int(pyseed)
        self.log.add("rng", int(pyseed), int(npseed) % (2**32))

    @contextmanager
    def installed(self):
        seam = self

        def default_rng(seed=None):
            if seed is None:
                seam._k += 1
                return _np_default_rng(seam._k)
            return _np_default_rng(seed)

        def urandom(n):
            seam._k += 1
            return random.Random(seam._k).randbytes(n)

        np.random.default_rng = default_rng
        os.urandom = urandom
        try:
            yield self
        finally:
            np.random.default_rng = _np_default_rng
            os.urandom = _os_urandom


# --------------------------------------------------------------------------
# E3 solver
# --------------------------------------------------------------------------
class SolverSeam:
    """Wraps ``miniball.get_bounding_ball`` on the module object.

    ``script`` is a list of booleans, one per solver attempt inside the
    current step: True = raise numpy.linalg.LinAlgError *before* delegating.
    Every attempt (natural failures included) is recorded with the exact input
    array and the raw output.
    """

    def __init__(self, log):
        self.log = log
        self.script = []
        self.attempts = []
        self.fired = Counter()
        self.real = getattr(miniball, "get_bounding_ball", None)

    def begin_step(self, script):
        self.script = list(script or [])
        self.attempts = []

    def _wrapped(self, S, *a, **k):
        i = len(self.attempts)
        rec = {"W": np.array(S, dtype=float, copy=True), "outcome": None, "raw": None}
        self.attempts.append(rec)
        if i < len(self.script) and self.script[i]:
            rec["outcome"] = "injected"
            self.fired["solver.linalgerror.injected"] += 1
            self.log.add("solver", i, "injected LinAlgError")
            raise np.linalg.LinAlgError("Singular matrix [simulated]")
        try:
            out = self.real(S, *a, **k)
        except np.linalg.LinAlgError:
            rec["outcome"] = "natural"
            self.fired["solver.linalgerror.natural"] += 1
            self.log.add("solver", i, "natural LinAlgError")
            raise
        except Exception as e:  # dependency failing in another way
            rec["outcome"] = "dep_error:" + type(e).__name__
            self.fired["solver.dep_error"] += 1
            self.log.add("solver", i, rec["outcome"])
            raise
        try:
            c, r2 = out
            rec["raw"] = (np.array(c, dtype=float, copy=True), float(r2))
            rec["outcome"] = "ok"
            self.log.add("solver", i, "ok", float(r2).hex())
        except Exception:
            rec["outcome"] = "ok_unparsed"
            self.log.add("solver", i, "ok_unparsed")
        return out

    @contextmanager
    def installed(self):
        if miniball is None:
            yield self
            return
        self.real = miniball.get_bounding_ball
        miniball.get_bounding_ball = self._wrapped
        try:
            yield self
        finally:
            miniball.get_bounding_ball = self.real


# --------------------------------------------------------------------------
# E4 clock
# --------------------------------------------------------------------------
class ClockSeam:
    """Virtual clock: advances only when read; counts reads by the SUT."""

    NAMES = ("time", "monotonic", "perf_counter", "process_time")
    NAMES_NS = ("time_ns", "monotonic_ns", "perf_counter_ns", "process_time_ns")

    def __init__(self, log):
        self.log = log
        self.now = 1.7e9
        self.reads = 0

    def _read(self):
        self.reads += 1
        self.now += 1e-3
        return self.now

    def _read_ns(self):
        return int(self._read() * 1e9)

    @contextmanager
    def installed(self):
        saved = {n: getattr(time, n) for n in self.NAMES + self.NAMES_NS}
        for n in self.NAMES:
            setattr(time, n, self._read)
        for n in self.NAMES_NS:
            setattr(time, n, self._read_ns)
        try:
            yield self
        finally:
            for n, f in saved.items():
                setattr(time, n, f)


# --------------------------------------------------------------------------
# the world: everything together
# --------------------------------------------------------------------------
class World:
    """One simulated environment for one run."""

    def __init__(self, sandbox, keep_events=True):
        self.log = EventLog(keep_events)
        self.fs = SimFS(sandbox, self.log)
        self.rng = RngSeam(self.log)
        self.solver = SolverSeam(self.log)
        self.clock = ClockSeam(self.log)

    @contextmanager
    def step(self, pyseed=0, npseed=0, fs_plan=None, bufsize=None, solver_script=None,
             use_fs=True, text_chunk=None):
        """Context for ONE operation of the system under test."""
        self.fs.begin_step(FaultPlan(fs_plan or ()), bufsize or io.DEFAULT_BUFFER_SIZE,
                           text_chunk)
        self.solver.begin_step(solver_script)
        self.rng.seed(pyseed, npseed)
        if use_fs:
            with self.fs.installed(), self.rng.installed(), \
                    self.solver.installed(), self.clock.installed():
                yield self
        else:
            with self.rng.installed(), self.solver.installed(), self.clock.installed():
                yield self

    def faults_fired(self):
        c = Counter()
        c.update(self.fs.faults_fired)
        c.update(self.solver.fired)
        return c
