"""Deterministic simulation with fault injection for glotzerlab/coxeter."""
