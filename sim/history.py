"""Mutation histories on live shape objects: operation alphabet, generation,
application, reference model (fresh construction).  Shared by C03 and C08.

A step is explicit data:

  {"op": "set", "prop": name, "arg": {...}, "inner": bool, "pyseed", "npseed",
   "solver_script": [...]}
  {"op": "call", "name": "diagonalize_inertia" | "merge_faces" | "sort_faces" | "to_hoomd",
   "kwargs": {...}, "inner": bool, ...}

Size targets are stored as *factors relative to the current value* and points
as offsets in units of the current extent, so deleting earlier steps keeps
later ones meaningful.
"""

import math
import warnings

import numpy as np

from . import gen, observe

SIZE_HINT = ("volume", "surface_area", "area", "perimeter", "circumference", "radius",
             "diameter", "mean_curvature", "a", "b", "c")
POINT_PROPS = ("centroid", "center")
RESTORABLE = ("radius", "a", "b", "c", "volume", "area", "surface_area", "perimeter")


def is_size_prop(name):
    return name in SIZE_HINT or name.endswith("_radius")


def target_of(obj):
    """The object operations marked inner apply to."""
    for n in ("polyhedron", "polygon"):
        if hasattr(type(obj), n):
            return getattr(obj, n)
    return None


def extent(obj):
    v = getattr(obj, "vertices", None)
    if v is not None:
        v = np.asarray(v, float)
        e = float(np.max(np.linalg.norm(v - v.mean(axis=0), axis=1)))
        return e if np.isfinite(e) and e > 0 else 1.0
    vals = [abs(float(getattr(obj, n))) for n in ("radius", "a", "b", "c") if hasattr(obj, n)]
    return max(vals) if vals else 1.0


def anchor(obj):
    v = getattr(obj, "vertices", None)
    if v is not None:
        return np.asarray(v, float).mean(axis=0)
    return np.asarray(obj.centroid, float)


def probe_getters(obj):
    """Which settable properties can be read in the current state."""
    props, settable, methods = observe.members(type(obj))
    out = {}
    for name in settable:
        try:
            with warnings.catch_warnings():
                warnings.simplefilter("ignore")
                getattr(obj, name)
            out[name] = "ok"
        except NotImplementedError:
            out[name] = "NotImplementedError"
        except Exception as e:  # noqa: BLE001
            out[name] = type(e).__name__
    return out, [m for m in methods if m in observe.MUTATOR_METHODS or m == "to_hoomd"]


def gen_steps(rng, obj, n, *, bad_rate=0.0, malformed_rate=0.0, setter_bias=1.0,
              solver_fault_rate=0.15, allow_calls=True, factor_decades=1.0,
              ext_range=(1e-2, 300.0), coord_max=2500.0):
    """Draw ``n`` steps for the (already built) base object ``obj``.

    The walk is kept inside a window of sizes and coordinate magnitudes
    (``ext_range``, ``coord_max``): outside it the vendored triangulation and
    segment-intersection helpers of coxeter hit their absolute tolerances, and
    constructor tolerances are not what the histories are about."""
    getters, calls = probe_getters(obj)
    inner_obj = target_of(obj)
    inner_getters, inner_calls = probe_getters(inner_obj) if inner_obj is not None else ({}, [])
    steps = []
    ext = extent(obj)  # running estimates of the size and of the distance from the origin
    dist = float(np.linalg.norm(anchor(obj)))
    for _ in range(n):
        use_inner = inner_obj is not None and rng.chance(0.3)
        g, cl = (inner_getters, inner_calls) if use_inner else (getters, calls)
        weights = []
        for name, state in sorted(g.items()):
            w = {"ok": 1.0, "NotImplementedError": 0.03, "RuntimeError": 0.3}.get(state, 0.15)
            weights.append((("set", name), w * setter_bias))
        if allow_calls:
            for name in sorted(cl):
                weights.append((("call", name), 1.2))
        kind, name = rng.weighted(weights)
        st = {"op": kind, "inner": bool(use_inner), "pyseed": rng.u32(), "npseed": rng.u32()}
        if kind == "call":
            st["name"] = name
            if name == "merge_faces":
                st["kwargs"] = {} if rng.chance(0.4) else {
                    "atol": 10 ** rng.uniform(-12, -6), "rtol": 10 ** rng.uniform(-9, -4)}
            else:
                st["kwargs"] = {}
            if name == "diagonalize_inertia":
                pass  # rotation about the origin keeps |anchor|
        else:
            st["prop"] = name
            r = rng.random()
            if name in POINT_PROPS:
                if r < malformed_rate:
                    st["arg"] = {"kind": "malformed_point", "n": rng.choice([2, 4])}
                elif r < malformed_rate + 0.15:
                    # a nudge: the current centroid plus a shift far below the shape's size
                    # (but not zero) - what a relaxation loop assigns step after step
                    st["arg"] = {"kind": "nudge", "d": rng.unit_vector(3),
                                 "mag": 10 ** rng.uniform(-9, -3),
                                 "as": rng.choice(["list", "array"])}
                elif r < malformed_rate + 0.22 and hasattr(obj, "vertices"):
                    # "put the centroid where vertex k is now": the target is a *view* of the
                    # shape's own vertex array (legal; it changes while the setter runs)
                    st["arg"] = {"kind": "own_vertex", "k": rng.randrange(64)}
                    dist += ext
                else:
                    d = [rng.uniform(-1, 1) * rng.choice([0.0, 1.0, 3.0, 20.0])
                         for _ in range(3)]
                    step = float(np.linalg.norm(d)) * ext
                    rel = "anchor"
                    if dist + step + ext > coord_max:
                        rel = "origin"  # come back: target = d * extent from the origin
                        dist = step
                    else:
                        dist += step
                    st["arg"] = {"kind": "point", "d": d, "rel": rel,
                                 "as": rng.choice(["list", "tuple", "array"])}
            elif r < bad_rate:
                st["arg"] = {"kind": "bad", "bad": rng.choice(
                    ["zero", "negative", "nan"] + (["underflow"] if hasattr(obj, "vertices")
                                                   else [])),
                             "f": rng.uniform(0.5, 2.0)}
            else:
                f = 10 ** rng.uniform(-factor_decades, factor_decades)
                if name in RESTORABLE and rng.chance(0.12):
                    # save / change / restore: assign exactly the value the property had
                    # when the run started (old = s.radius; s.volume = ...; s.radius = old)
                    st["arg"] = {"kind": "restore"}
                    st["win"] = [ext_range[0], ext_range[1], coord_max]
                    steps.append(st)
                    continue
                if rng.chance(0.08):
                    # a target next to the current value (but not equal to it)
                    f = 1.0 + rng.choice([-1.0, 1.0]) * 10 ** rng.uniform(-9, -3)
                dim = 3 if name == "volume" else 2 if name in ("surface_area", "area") else 1
                s = f ** (1.0 / dim)
                if not (ext_range[0] <= ext * s <= ext_range[1]) or (dist + ext) * s > coord_max:
                    f = 1.0 / f
                    s = 1.0 / s
                    if not (ext_range[0] <= ext * s <= ext_range[1]) or \
                            (dist + ext) * s > coord_max:
                        f, s = 1.0, 1.0
                ext *= s
                dist *= s
                st["arg"] = {"kind": "factor", "f": f}
                if rng.chance(0.12):
                    # the same positive number as another numeric type a caller may hold
                    st["arg"]["astype"] = rng.choice(["int", "np_int"])
                if name == "radius" and rng.chance(0.2):
                    st["arg"] = {"kind": "abs_zero"}
        st["win"] = [ext_range[0], ext_range[1], coord_max]
        if (kind == "set" and "minimal_bounding" in st.get("prop", "")) and \
                rng.chance(solver_fault_rate * 3):
            k = rng.choice([1, 1, 2, 3, 5, 9, 10])
            st["solver_script"] = [True] * k
            if rng.chance(0.3):
                # the first solver call of the operation succeeds, a later one fails (a setter
                # that measures, rescales and measures again)
                st["solver_script"] = [False] + [True] * rng.choice([1, 3, 10])
        steps.append(st)
    return steps


def resolve_arg(obj, st, world=None):
    """Concrete value to assign for a 'set' step in the current state.
    Returns (value, current_or_None)."""
    arg = st["arg"]
    name = st["prop"]
    kind = arg["kind"]
    win = st.get("win")
    if kind == "own_vertex":
        v = obj.vertices
        return v[arg["k"] % len(v)], None
    if kind == "nudge":
        try:
            with warnings.catch_warnings():
                warnings.simplefilter("ignore")
                c = np.array(obj.centroid, dtype=float)
        except Exception:  # noqa: BLE001 - unreadable in this state: nudge the vertex mean
            c = anchor(obj)
        d = np.array(arg["d"], float)
        if c.shape != d.shape:
            d = d[:c.shape[0]]
        if type(obj).__name__ in ("Circle", "Ellipse") and len(d) == 3:
            d[2] = 0.0
        p = c + d * arg["mag"] * extent(obj)
        return (p.tolist() if arg.get("as") == "list" else p), None
    if kind in ("point", "malformed_point"):
        if kind == "malformed_point":
            return [0.5] * arg["n"], None
        if arg.get("rel") == "origin":
            p = np.array(arg["d"], float) * extent(obj)
        else:
            p = anchor(obj) + np.array(arg["d"], float) * extent(obj)
            if win and float(np.linalg.norm(p)) + extent(obj) > win[2]:
                # stay inside the coordinate window whatever the history did before
                p = np.array(arg["d"], float) * extent(obj)
                if float(np.linalg.norm(p)) + extent(obj) > win[2]:
                    p = np.array(arg["d"], float) / (np.linalg.norm(arg["d"]) or 1.0) * extent(obj)
        if arg.get("as") == "list":
            return p.tolist(), None
        if arg.get("as") == "tuple":
            return tuple(p.tolist()), None
        return p, None
    if kind == "abs_zero":
        return 0.0, None
    if kind == "restore":
        init = (world.__dict__.get("_cxv_initial", {}) if world is not None else {}).get(id(obj), {})
        cur = None
        try:
            with warnings.catch_warnings():
                warnings.simplefilter("ignore")
                cur = float(getattr(obj, name))
        except Exception:  # noqa: BLE001
            cur = None
        v = init.get(name)
        if v is None or not np.isfinite(v) or (v <= 0 and name != "radius"):
            v = cur if cur is not None else extent(obj)
        return float(v), cur
    cur = None
    try:
        with warnings.catch_warnings():
            warnings.simplefilter("ignore")
            cur = float(getattr(obj, name))
    except Exception:  # noqa: BLE001 - unreadable in this state: any positive number is legal
        cur = None
    base = cur if (cur is not None and np.isfinite(cur) and cur > 0) else extent(obj)
    if kind == "factor":
        f = arg["f"]
        if win:
            dim = 3 if name == "volume" else 2 if name in ("surface_area", "area") else 1
            e, far = extent(obj), float(np.linalg.norm(anchor(obj)))

            def inside(ff):
                s = ff ** (1.0 / dim)
                return win[0] <= e * s <= win[1] and (far + e) * s <= win[2]

            if not inside(f):
                f = 1.0 / f if inside(1.0 / f) else 1.0
        v = base * f
        how = arg.get("astype")
        if how in ("int", "np_int") and 2.0 <= v < 1e15 and abs(round(v) / v - 1.0) < 0.3:
            v = int(round(v)) if how == "int" else np.int64(round(v))
        elif how == "f32" and 1e-30 < v < 1e30:
            v = np.float32(v)
        elif how == "zero_d":
            v = np.array(v)
        return v, cur
    if kind == "bad":
        if arg["bad"] == "zero":
            return 0.0, cur
        if arg["bad"] == "negative":
            return -base * arg["f"], cur
        if arg["bad"] == "underflow":
            # positive, but so small that the scale factor target/current rounds to 0.0
            return 5e-324, cur
        return float("nan"), cur
    raise KeyError(kind)


def apply(obj, st, world, scribble=False, reuse=None):
    """Run one step against the live object inside the simulated environment.
    Returns dict(outcome='ok'|'raised', exc=..., value=assigned value, cur=...).

    ``scribble``: hostile caller - an ndarray passed to a setter is overwritten in
    place by the caller right after the call (the shape must have kept a copy).
    ``reuse``: a dict kept by the caller for the whole run - every position passed as an
    ndarray is written into one and the same array object (``pos[:] = target``), the way a
    simulation loop updates a position in place and assigns it again."""
    tgt = target_of(obj) if st.get("inner") else obj
    if tgt is None:
        tgt = obj
    out = {"outcome": "ok", "exc": None, "value": None, "cur": None}
    with world.step(st["pyseed"] ^ 0x1111, st["npseed"] ^ 0x2222, use_fs=False):
        init = world.__dict__.setdefault("_cxv_initial", {})
        for o in (obj, target_of(obj)):
            if o is not None and id(o) not in init:
                vals = {}
                for n in RESTORABLE:
                    if isinstance(getattr(type(o), n, None), property):
                        try:
                            with warnings.catch_warnings():
                                warnings.simplefilter("ignore")
                                vals[n] = float(getattr(o, n))
                        except Exception:  # noqa: BLE001
                            pass
                init[id(o)] = vals
        if st["op"] == "set":
            out["value"], out["cur"] = resolve_arg(tgt, st, world)
    # the harness's own reading of the current value may have gone through the solver
    out["pre_attempts"] = list(world.solver.attempts)
    with world.step(st["pyseed"], st["npseed"], solver_script=st.get("solver_script"),
                    use_fs=False):
        try:
            with warnings.catch_warnings():
                warnings.simplefilter("ignore")
                if st["op"] == "set":
                    passed = out["value"]
                    if st["arg"].get("kind") == "own_vertex":
                        out["value"] = np.array(passed, dtype=float, copy=True)
                    elif reuse is not None and isinstance(passed, np.ndarray) and \
                            passed.shape == (3,) and passed.dtype == np.float64:
                        if "buf" not in reuse:
                            reuse["buf"] = np.array(passed, dtype=np.float64)
                        else:
                            reuse["buf"][...] = passed
                        out["value"] = np.array(passed, copy=True)
                        passed = reuse["buf"]
                    setattr(tgt, st["prop"], passed)
                else:
                    getattr(tgt, st["name"])(**st.get("kwargs", {}))
        except BaseException as e:  # noqa: BLE001
            if isinstance(e, (KeyboardInterrupt, SystemExit)) or \
                    type(e).__name__ == "HarnessTimeout":
                raise
            out["outcome"] = "raised"
            out["exc"] = e
    if scribble and st["op"] == "set" and isinstance(out["value"], np.ndarray) and \
            st["arg"].get("kind") != "own_vertex":
        passed = out["value"]
        out["value"] = passed.copy()
        passed += 1.2345 * (1.0 + np.abs(passed))
    return out


def fresh(obj, tracked):
    """Reference model: a freshly constructed shape with the same current
    vertices (and faces, normal, rounding radius)."""
    import coxeter.shapes as S

    cls = type(obj).__name__
    if cls == "ConvexPolyhedron":
        return S.ConvexPolyhedron(np.array(obj.vertices, copy=True))
    if cls == "Polyhedron":
        return S.Polyhedron(np.array(obj.vertices, copy=True),
                            [np.array(f, copy=True) for f in obj.faces],
                            faces_are_convex=tracked.get("faces_are_convex", True))
    if cls == "ConvexSpheropolyhedron":
        return S.ConvexSpheropolyhedron(np.array(obj.vertices, copy=True), float(obj.radius))
    if cls == "Polygon":
        return S.Polygon(np.array(obj.vertices, copy=True), normal=np.array(obj.normal, copy=True))
    if cls == "ConvexPolygon":
        return S.ConvexPolygon(np.array(obj.vertices, copy=True),
                               normal=np.array(obj.normal, copy=True))
    if cls == "ConvexSpheropolygon":
        return S.ConvexSpheropolygon(np.array(obj.vertices, copy=True), float(obj.radius),
                                     normal=np.array(obj.normal, copy=True))
    if cls in ("Circle", "Sphere"):
        return getattr(S, cls)(float(obj.radius), center=np.array(obj.centroid, float).tolist())
    if cls == "Ellipse":
        return S.Ellipse(float(obj.a), float(obj.b), center=np.array(obj.centroid, float).tolist())
    if cls == "Ellipsoid":
        return S.Ellipsoid(float(obj.a), float(obj.b), float(obj.c),
                           center=np.array(obj.centroid, float).tolist())
    raise KeyError(cls)


def jittered(obj, tracked):
    """A second reference model built from the same geometry perturbed in the
    last bits (relative 2^-50, deterministic sign pattern).  Observables on
    which the two models disagree among themselves are ill-conditioned in this
    state (borderline constructor tolerances, arccos at +-1, arbitrary in-plane
    frames) and are not judged."""
    import coxeter.shapes as S

    cls = type(obj).__name__
    v = np.array(obj.vertices, dtype=float, copy=True)
    pat = np.where((np.arange(v.size).reshape(v.shape) * 7 + 3) % 5 < 2, 1.0, -1.0)
    v2 = v * (1.0 + pat * 2.0 ** -50)
    if cls == "ConvexPolyhedron":
        return S.ConvexPolyhedron(v2)
    if cls == "Polyhedron":
        return S.Polyhedron(v2, [np.array(f, copy=True) for f in obj.faces],
                            faces_are_convex=tracked.get("faces_are_convex", True))
    if cls == "ConvexSpheropolyhedron":
        return S.ConvexSpheropolyhedron(v2, float(obj.radius))
    # polygons: jitter in the plane only (keep the vertices coplanar)
    n = np.array(obj.normal, dtype=float)
    n = n / np.linalg.norm(n)
    c = v.mean(axis=0)
    w = v - c
    w = w - np.outer(w @ n, n)
    a = w[0] / (np.linalg.norm(w[0]) or 1.0)
    b = np.cross(n, a)
    k = np.arange(len(v))
    ext = float(np.max(np.linalg.norm(w, axis=1))) or 1.0
    v2 = v + (np.outer(np.where(k % 2 == 0, 1.0, -1.0), a)
              + np.outer(np.where(k % 3 == 0, 1.0, -1.0), b)) * ext * 2.0 ** -50
    if cls == "Polygon":
        return S.Polygon(v2, normal=n, planar_tolerance=1e-4)
    if cls == "ConvexPolygon":
        return S.ConvexPolygon(v2, normal=n, planar_tolerance=1e-4)
    if cls == "ConvexSpheropolygon":
        return S.ConvexSpheropolygon(v2, float(obj.radius), normal=n)
    raise KeyError(cls)


def geometry(obj):
    """The defining geometry G of a shape as plain arrays (copy-owning)."""
    g = {}
    if hasattr(obj, "vertices"):
        g["vertices"] = np.array(obj.vertices, dtype=float, copy=True)
    if hasattr(obj, "faces"):
        try:
            g["faces"] = [np.array(f, copy=True) for f in obj.faces]
        except Exception:  # noqa: BLE001
            pass
    if hasattr(obj, "normal"):
        g["normal"] = np.array(obj.normal, dtype=float, copy=True)
    for n in ("radius", "a", "b", "c"):
        if isinstance(getattr(type(obj), n, None), property):
            try:
                g[n] = float(getattr(obj, n))
            except Exception:  # noqa: BLE001
                pass
    if "vertices" not in g:
        try:
            g["centroid"] = np.array(obj.centroid, dtype=float, copy=True)
        except Exception:  # noqa: BLE001
            pass
    return g


def signed_volume(vertices, faces):
    v = np.asarray(vertices, float)
    vol = 0.0
    for f in faces:
        f = [int(i) for i in f]
        for i in range(1, len(f) - 1):
            vol += float(np.dot(v[f[0]], np.cross(v[f[i]], v[f[i + 1]]))) / 6.0
    return vol


def check_simplices(obj):
    """Validity of ConvexPolyhedron.simplices against its faces (the
    triangulation is not unique, so validity instead of equality)."""
    v = np.asarray(obj.vertices, float)
    faces = [[int(i) for i in f] for f in obj.faces]
    simplices = np.asarray(obj.simplices)
    fsets = [set(f) for f in faces]
    newell = []
    for f in faces:
        p = v[f]
        n = np.zeros(3)
        for a, b in zip(p, np.roll(p, -1, axis=0)):
            n += np.cross(a, b)
        newell.append(n / 2)
    acc = [np.zeros(3) for _ in faces]
    for s in simplices:
        s = [int(i) for i in s]
        cand = [k for k, fs in enumerate(fsets) if set(s) <= fs]
        if not cand:
            return "simplex %s lies in no face" % s
        p = v[s]
        a = np.cross(p[1] - p[0], p[2] - p[0]) / 2
        k = max(cand, key=lambda c: float(np.dot(a, newell[c])))
        if float(np.dot(a, newell[k])) <= 0 and np.linalg.norm(a) > 1e-12 * np.linalg.norm(newell[k]):
            return "simplex %s is oriented inward" % s
        acc[k] += a
    for k in range(len(faces)):
        n = np.linalg.norm(newell[k])
        if np.linalg.norm(acc[k] - newell[k]) > 1e-7 * n:
            return "simplices of face %d add up to area %.6g, face has %.6g" % (
                k, np.linalg.norm(acc[k]), n)
    return ""
