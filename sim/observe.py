"""Reflection over coxeter's public API; snapshots; comparators.

``snapshot(obj, probes)`` reads every public property (found by reflection, so
members added later are included) plus a fixed set of probe queries and returns
a dict name -> ("ok", canonical value) | ("raises", exception type name).

Two comparators:

``diff_equiv(a, b, ctx)``      observable-by-observable equivalence of a mutated
                               object with a freshly constructed one (C03/C08)
``diff_unchanged(a, b, ctx)``  "the shape is as it was" up to last-digit
                               rounding (C03 failure atomicity, C16, C20)
"""

import inspect
import warnings
from functools import cached_property

import numpy as np

DEPRECATED = {
    "bounding_sphere", "bounding_circle", "insphere_from_center",
    "circumsphere_from_center", "incircle_from_center",
}
MUTATOR_METHODS = {"diagonalize_inertia", "merge_faces", "sort_faces"}
# physical dimension (power of length) per observable name; unknown -> 5 (lenient)
DIMENSION = {
    "vertices": 1, "centroid": 1, "center": 1, "radius": 1, "diameter": 1, "a": 1, "b": 1,
    "c": 1, "perimeter": 1, "circumference": 1, "edge_vectors": 1, "edge_lengths": 1,
    "face_centroids": 1, "mean_curvature": 1, "distance_to_surface": 1,
    "area": 2, "signed_area": 2, "surface_area": 2, "get_face_area": 2,
    "volume": 3, "planar_moments_inertia": 4, "polar_moment_inertia": 4,
    "inertia_tensor": 5, "normal": 0, "normals": 0, "iq": 0, "tau": 0, "asphericity": 0,
    "eccentricity": 0, "get_dihedral": 0, "equations": 1,
    "form_factor": 3,
}
BALL_PROPS = {
    "minimal_bounding_sphere", "minimal_centered_bounding_sphere", "maximal_bounded_sphere",
    "maximal_centered_bounded_sphere", "circumsphere", "insphere",
    "minimal_bounding_circle", "minimal_centered_bounding_circle", "maximal_bounded_circle",
    "maximal_centered_bounded_circle", "circumcircle", "incircle", "maximal_bounding_circle",
}
SOLVER_PROPS = {"minimal_bounding_sphere", "minimal_bounding_sphere_radius",
                "minimal_bounding_circle", "minimal_bounding_circle_radius"}
EXISTENCE_PROPS = {"circumsphere", "circumsphere_radius", "insphere", "insphere_radius",
                   "circumcircle", "circumcircle_radius", "incircle", "incircle_radius"}

_MEMBERS = {}


def members(cls):
    """(properties, settable, methods) of a class, by reflection."""
    if cls in _MEMBERS:
        return _MEMBERS[cls]
    props, settable, methods = [], [], []
    for name in sorted(dir(cls)):
        if name.startswith("_"):
            continue
        attr = inspect.getattr_static(cls, name)
        if isinstance(attr, property):
            props.append(name)
            if attr.fset is not None:
                settable.append(name)
        elif isinstance(attr, cached_property):
            props.append(name)
        elif inspect.isfunction(attr):
            methods.append(name)
    _MEMBERS[cls] = (props, settable, methods)
    return _MEMBERS[cls]


def is_shape(x):
    from coxeter.shapes.base_classes import Shape

    return isinstance(x, Shape)


def canon(value, depth=0):
    """Canonical, copy-owning form of a returned value."""
    if isinstance(value, np.ndarray):
        return np.array(value, copy=True)
    if isinstance(value, (bool, np.bool_)):
        return bool(value)
    if isinstance(value, (int, np.integer)):
        return int(value)
    if isinstance(value, (float, np.floating)):
        return float(value)
    if isinstance(value, (complex, np.complexfloating)):
        return complex(value)
    if isinstance(value, str) or value is None:
        return value
    if is_shape(value):
        name = type(value).__name__
        if name in ("Sphere", "Circle"):
            try:
                c = np.array(value.centroid, dtype=float, copy=True)
            except Exception:
                c = None
            return {"__ball__": name, "radius": float(value.radius), "centroid": c}
        if depth < 1:
            return {"__shape__": name, "snap": snapshot(value, None, depth + 1)}
        return {"__shape__": name}
    if isinstance(value, dict):
        return {str(k): canon(v, depth) for k, v in value.items()}
    if isinstance(value, (list, tuple)):
        items = [canon(v, depth) for v in value]
        if items and all(isinstance(x, (int, float)) and not isinstance(x, bool) for x in items):
            return np.array(items, dtype=float)
        return items
    return repr(value)


def _guard(fn):
    try:
        with warnings.catch_warnings():
            warnings.simplefilter("ignore")
            return ("ok", canon(fn()))
    except Exception as e:  # noqa: BLE001 - the raise itself is the observation
        return ("raises", type(e).__name__)


def build_probes(vertices, dim3=True, normal=None):
    """Probe arguments derived deterministically from a vertex array."""
    v = np.asarray(vertices, float)
    c = v.mean(axis=0)
    ext = float(np.max(np.linalg.norm(v - c, axis=1))) or 1.0
    pts = [c]
    stride = max(1, len(v) // 6)
    for vi in v[::stride][:6]:
        for t in (0.35, 0.8, 1.25):
            pts.append(c + t * (vi - c))
    for i in range(0, len(v) - 1, max(1, len(v) // 4)):
        pts.append(0.5 * (v[i] + v[i + 1]) * 0.6 + 0.4 * c)
    pts.append(c + np.array([3.0, 1.0, 2.0]) * ext)
    pts = np.array(pts)
    delta = 1e-6 * ext
    offs = np.vstack([np.zeros(3), np.eye(3) * delta, -np.eye(3) * delta])
    allpts = (pts[None, :, :] + offs[:, None, :]).reshape(-1, 3)
    qdirs = np.array([[1.0, 0, 0], [0, 1.0, 0], [0.3, -0.5, 0.8], [-0.7, 0.2, 0.1]])
    q = np.vstack([np.zeros((1, 3)), qdirs * (1.0 / ext), qdirs * (3.0 / ext)])
    angles = np.array([0.1, 0.9, 1.7, 2.6, 3.3, 4.1, 5.0, 5.9])
    return {"points": allpts, "n_base": len(pts), "q": q, "angles": angles, "ext": ext}


def snapshot(obj, probes, depth=0, only=None):
    """Read every public observable of ``obj``.

    ``only``: optional set of names to restrict to (sparse observation).
    """
    cls = type(obj)
    props, settable, methods = members(cls)
    snap = {}
    for name in props:
        if name in DEPRECATED:
            continue
        if only is not None and name not in only:
            continue
        snap[name] = _guard(lambda n=name: getattr(obj, n))
    if depth == 0 and (only is None or "repr" in only):
        snap["repr"] = _guard(lambda: repr(obj))
    if probes is None or depth > 0:
        return snap

    def want(n):
        return only is None or n in only

    if "is_inside" in methods and want("is_inside"):
        pts = probes["points"].copy()
        snap["is_inside"] = _guard(lambda: np.asarray(obj.is_inside(pts)))
    if "compute_form_factor_amplitude" in methods and want("form_factor"):
        q = probes["q"].copy()
        snap["form_factor"] = _guard(lambda: np.asarray(obj.compute_form_factor_amplitude(q)))
    if "distance_to_surface" in methods and want("distance_to_surface"):
        a = probes["angles"].copy()
        snap["distance_to_surface"] = _guard(lambda: np.asarray(obj.distance_to_surface(a)))
    if "get_face_area" in methods and want("get_face_area"):
        snap["get_face_area"] = _guard(lambda: np.asarray(obj.get_face_area(), dtype=float))
    if "get_dihedral" in methods and want("get_dihedral"):
        def dihedrals():
            out = []
            nb = obj.neighbors
            for i in range(len(nb)):
                for j in nb[i]:
                    if i < int(j):
                        out.append((i, int(j), float(obj.get_dihedral(i, int(j)))))
            return [list(t) for t in out]
        snap["get_dihedral"] = _guard(dihedrals)
    return snap


# --------------------------------------------------------------------------
# comparison helpers
# --------------------------------------------------------------------------
def _num_close(a, b, rtol, atol):
    a = np.asarray(a)
    b = np.asarray(b)
    if a.shape != b.shape:
        return False, "shape %s vs %s" % (a.shape, b.shape)
    if a.size == 0:
        return True, ""
    if a.dtype == bool or b.dtype == bool:
        ok = bool(np.array_equal(a, b))
        return ok, "" if ok else "bool arrays differ at %s" % np.argwhere(a != b)[:3].tolist()
    fa = np.isfinite(a)
    fb = np.isfinite(b)
    if not np.array_equal(fa, fb):
        return False, "finite pattern differs: %s vs %s" % (_short(a), _short(b))
    if not fa.all():
        # compare non-finite entries by equality (nan==nan accepted)
        na, nb = a[~fa], b[~fb]
        if not np.array_equal(np.isnan(na), np.isnan(nb)):
            return False, "nan pattern differs"
        m = ~np.isnan(na)
        if not np.array_equal(na[m], nb[m]):
            return False, "inf pattern differs"
        a, b = a[fa], b[fb]
        if a.size == 0:
            return True, ""
    scale = max(float(np.max(np.abs(a))), float(np.max(np.abs(b))))
    err = float(np.max(np.abs(a - b)))
    if err <= rtol * scale + atol:
        return True, ""
    return False, "max|diff|=%.3g scale=%.3g (%s vs %s)" % (err, scale, _short(a), _short(b))


def _short(a):
    a = np.asarray(a).ravel()
    return np.array2string(a[:4], precision=6, separator=",")


def cycle_key(face):
    f = [int(i) for i in face]
    k = f.index(min(f))
    return tuple(f[k:] + f[:k])


class Ctx:
    """Tolerances for one comparison: L = largest |coordinate| (length scale)."""

    def __init__(self, L, rtol, atol_rel, faces_as_cycles=False, skip=()):
        self.L = float(L) if L and np.isfinite(L) else 1.0
        self.rtol = rtol
        self.atol_rel = atol_rel
        self.faces_as_cycles = faces_as_cycles
        self.frame_invariants = False
        # an observable that raises before and after is "unchanged" whatever the type
        # (outside coxeter's working range the vendored helpers fail chaotically)
        self.lenient_raise_type = False
        self.skip = set(skip)
        self.notes = []

    def atol(self, name):
        k = DIMENSION.get(name, 5)
        return self.atol_rel * (self.L ** k if k else 1.0)


def _cmp_value(name, a, b, ctx, path=""):
    """Generic recursive comparison; returns reason string or ''."""
    if isinstance(a, dict) and isinstance(b, dict):
        if "__ball__" in a or "__ball__" in b:
            if a.get("__ball__") != b.get("__ball__"):
                return "ball type differs"
            ok, why = _num_close(a["radius"], b["radius"], ctx.rtol, ctx.atol("radius"))
            if not ok:
                return "radius: " + why
            if (a["centroid"] is None) != (b["centroid"] is None):
                return "ball centre missing on one side"
            if a["centroid"] is not None:
                ok, why = _num_close(a["centroid"], b["centroid"], ctx.rtol, ctx.atol("centroid"))
                if not ok:
                    return "centre: " + why
            return ""
        if "__shape__" in a or "__shape__" in b:
            if a.get("__shape__") != b.get("__shape__"):
                return "inner shape type differs"
            sa, sb = a.get("snap"), b.get("snap")
            if sa is None or sb is None:
                return ""
            d = _diff(sa, sb, ctx, prefix=name + ".")
            return "; ".join("%s: %s" % x for x in d[:2])
        if set(a) != set(b):
            return "dict keys differ: %s vs %s" % (sorted(a), sorted(b))
        for k in sorted(a):
            r = _cmp_value(k if k in DIMENSION else name, a[k], b[k], ctx, path + "." + k)
            if r:
                return "%s: %s" % (k, r)
        return ""
    if isinstance(a, list) and isinstance(b, list):
        if len(a) != len(b):
            return "length %d vs %d" % (len(a), len(b))
        for i, (x, y) in enumerate(zip(a, b)):
            r = _cmp_value(name, x, y, ctx, path + "[%d]" % i)
            if r:
                return "[%d] %s" % (i, r)
        return ""
    if isinstance(a, str) or isinstance(b, str) or a is None or b is None:
        return "" if a == b else "%r vs %r" % (a, b)
    if isinstance(a, (np.ndarray, int, float, complex, bool)) and \
            isinstance(b, (np.ndarray, int, float, complex, bool)):
        aa, bb = np.asarray(a), np.asarray(b)
        if aa.dtype.kind in "iub" and bb.dtype.kind in "iub":
            if aa.shape != bb.shape or not np.array_equal(aa, bb):
                return "integer data differs: %s vs %s" % (_short(aa), _short(bb))
            return ""
        if aa.dtype.kind == "c" or bb.dtype.kind == "c":
            aa = np.stack([aa.real, aa.imag])
            bb = np.stack([np.asarray(bb).real, np.asarray(bb).imag])
        ok, why = _num_close(aa, bb, ctx.rtol, ctx.atol(name))
        return "" if ok else why
    return "" if type(a) is type(b) else "type %s vs %s" % (type(a).__name__, type(b).__name__)


def _is_inside_cmp(a, b, nbase):
    """Compare only probe points whose classification by the reference (b) is
    stable under the +-delta perturbations."""
    a = np.asarray(a).reshape(7, nbase)
    b = np.asarray(b).reshape(7, nbase)
    stable = np.all(b == b[0], axis=0)
    bad = np.where(stable & (a[0] != b[0]))[0]
    if len(bad):
        return "is_inside differs on %d margin-separated probe points (first index %d: %s vs %s)" % (
            len(bad), bad[0], a[0][bad[0]], b[0][bad[0]])
    return ""


def _dihedral_cmp(ang_a, ang_b, ctx):
    """Dihedral angles compared through their cosines.

    arccos is ill-conditioned at 0 and pi and coxeter does not clip the dot
    product, so for coplanar neighbours a 1-ulp change of a normal toggles the
    result between pi and nan: nan is accepted against |cos| ~ 1.
    """
    a = np.asarray(ang_a, float)
    b = np.asarray(ang_b, float)
    if a.shape != b.shape:
        return "number of dihedrals differs"
    ca, cb = np.cos(a), np.cos(b)
    na, nb = np.isnan(a), np.isnan(b)
    edge_a = np.where(na, True, np.abs(ca) > 1 - 1e-9)
    edge_b = np.where(nb, True, np.abs(cb) > 1 - 1e-9)
    bad_nan = (na & ~edge_b) | (nb & ~edge_a)
    if bad_nan.any():
        return "nan dihedral against a regular angle at pair %d" % int(np.argmax(bad_nan))
    m = ~(na | nb)
    if m.any():
        ok, why = _num_close(ca[m], cb[m], ctx.rtol, max(ctx.atol("get_dihedral"), 1e-12))
        if not ok:
            return "cos(dihedral): " + why
    return ""


def _face_perm(fa, fb):
    """Permutation p with cycle(fa[i]) == cycle(fb[p[i]]), or None."""
    kb = {}
    for j, f in enumerate(fb):
        kb.setdefault(cycle_key(f), []).append(j)
    perm = []
    for f in fa:
        lst = kb.get(cycle_key(f))
        if not lst:
            return None
        perm.append(lst.pop(0))
    return perm


PER_FACE = ("equations", "normals", "face_centroids", "get_face_area")
# Polygon observables that depend on the arbitrary in-plane frame coxeter picks
# for a polygon that does not lie in the xy-plane (kabsch on a rank-1 problem:
# a 1-ulp change of the normal changes the in-plane axes completely).
# planar_moments_inertia documents this; Polygon.inertia_tensor inherits it
# because it rotates diag(0, 0, Iz) with the matrix instead of its transpose
# (a pure-function defect, C04 territory).  Between an object and a *fresh*
# object (whose normal is re-normalised) only frame invariants are compared.
FRAME_DEPENDENT = ("planar_moments_inertia", "inertia_tensor", "distance_to_surface")


def _tilted(snap):
    """True for a polygon snapshot whose normal is not exactly +-z."""
    e = snap.get("normal")
    if not e or e[0] != "ok":
        return False
    nrm = np.asarray(e[1], float)
    return not (nrm.shape == (3,) and nrm[0] == 0 and nrm[1] == 0)


def _frame_invariant_cmp(name, va, vb, ctx):
    if name == "distance_to_surface":
        return ""
    a, b = np.asarray(va, float), np.asarray(vb, float)
    if a.shape != b.shape:
        return "shape %s vs %s" % (a.shape, b.shape)
    if name == "planar_moments_inertia":
        ia = np.array([a[0] + a[1], a[0] * a[1] - a[2] ** 2])
        ib = np.array([b[0] + b[1], b[0] * b[1] - b[2] ** 2])
        ok1, why1 = _num_close(ia[0], ib[0], ctx.rtol, ctx.atol(name))
        ok2, why2 = _num_close(ia[1], ib[1], ctx.rtol * 10, ctx.atol(name) ** 2
                               + ctx.rtol * 10 * (a[0] + a[1]) ** 2)
        return "" if (ok1 and ok2) else "rotation invariants differ: %s %s" % (why1, why2)
    ok, why = _num_close(np.trace(a), np.trace(b), ctx.rtol, ctx.atol(name))
    return "" if ok else "trace differs: " + why


def _diff(a, b, ctx, prefix=""):
    """List of (observable, reason) where snapshots a and b differ."""
    out = []
    names = [n for n in a if n in b]
    for n in sorted(set(a) ^ set(b)):
        out.append((prefix + n, "observable present on one side only"))
    perm = None
    if ctx.faces_as_cycles and "faces" in a and "faces" in b \
            and a["faces"][0] == "ok" and b["faces"][0] == "ok":
        fa, fb = a["faces"][1], b["faces"][1]
        if len(fa) != len(fb):
            out.append((prefix + "faces", "number of faces %d vs %d" % (len(fa), len(fb))))
            perm = "bad"
        else:
            perm = _face_perm(fa, fb)
            if perm is None:
                out.append((prefix + "faces", "face cycles differ (orientation or membership): "
                            "%s vs %s" % ([list(map(int, f)) for f in fa[:3]],
                                          [list(map(int, f)) for f in fb[:3]])))
                perm = "bad"
    for n in names:
        if n in ctx.skip:
            continue
        ka, va = a[n]
        kb_, vb = b[n]
        if ka != kb_:
            out.append((prefix + n, "%s vs %s" % (
                va if ka == "raises" else "value", vb if kb_ == "raises" else "value")))
            continue
        if ka == "raises":
            if va != vb and not ctx.lenient_raise_type:
                out.append((prefix + n, "raises %s vs %s" % (va, vb)))
            continue
        if n == "is_inside" and ctx.nbase:
            r = _is_inside_cmp(va, vb, ctx.nbase)
        elif ctx.faces_as_cycles and n == "faces":
            r = ""
        elif ctx.faces_as_cycles and n == "simplices":
            r = ""  # validity is checked separately (triangulation is not unique)
        elif ctx.faces_as_cycles and n in PER_FACE + ("neighbors",) and perm not in (None, "bad"):
            try:
                if n == "neighbors":
                    inv = {j: i for i, j in enumerate(perm)}
                    ra = [sorted(int(x) for x in va[i]) for i in range(len(va))]
                    rb = [sorted(inv[int(x)] for x in vb[perm[i]]) for i in range(len(va))]
                    r = "" if ra == rb else "neighbour lists differ: %s vs %s" % (ra[:3], rb[:3])
                else:
                    vb2 = np.asarray(vb)[perm]
                    r = _cmp_value(n, np.asarray(va), vb2, ctx)
            except Exception as e:  # malformed on one side
                r = "cannot align per-face data: %s" % e
        elif ctx.faces_as_cycles and n in PER_FACE + ("neighbors",) and perm == "bad":
            r = ""
        elif ctx.faces_as_cycles and n == "get_dihedral" and perm not in (None, "bad"):
            inv = {j: i for i, j in enumerate(perm)}
            da = {(int(i), int(j)): ang for i, j, ang in va}
            db = {}
            for i, j, ang in vb:
                x, y = inv[int(i)], inv[int(j)]
                db[(min(x, y), max(x, y))] = ang
            if set(da) != set(db):
                r = "neighbour pairs differ"
            else:
                keys = sorted(da)
                r = _dihedral_cmp([da[k] for k in keys], [db[k] for k in keys], ctx)
        elif ctx.faces_as_cycles and n == "get_dihedral":
            r = ""
        elif n == "get_dihedral":
            # arccos is ill-conditioned at 0 and pi (coplanar neighbours): compare cosines
            pa = [(int(t[0]), int(t[1])) for t in va]
            pb = [(int(t[0]), int(t[1])) for t in vb]
            if pa != pb:
                r = "neighbour pairs differ"
            else:
                r = _dihedral_cmp([t[2] for t in va], [t[2] for t in vb], ctx)
        elif n in FRAME_DEPENDENT and ctx.frame_invariants and _tilted(a):
            r = _frame_invariant_cmp(n, va, vb, ctx)
        elif n == "repr":
            r = ""  # textual; its ingredients are compared numerically
        elif n == "gsd_shape_spec":
            r = _cmp_value("vertices", va, vb, ctx)
        else:
            r = _cmp_value(n, va, vb, ctx)
        if r:
            out.append((prefix + n, r))
    return out


def length_scale(*snaps):
    L = 0.0
    for s in snaps:
        for key in ("vertices", "centroid", "center"):
            e = s.get(key)
            if e and e[0] == "ok" and isinstance(e[1], np.ndarray) and e[1].size:
                with np.errstate(all="ignore"):
                    m = np.nanmax(np.abs(e[1])) if np.isfinite(e[1]).any() else 0.0
                L = max(L, float(m))
        for key in ("radius", "a", "b", "c"):
            e = s.get(key)
            if e and e[0] == "ok" and isinstance(e[1], (int, float)) and np.isfinite(e[1]):
                L = max(L, abs(float(e[1])))
    return L or 1.0


def diff_equiv(a, b, nbase=0, faces_as_cycles=False, skip=(), rtol=1e-6, atol_rel=1e-9):
    ctx = Ctx(length_scale(a, b), rtol, atol_rel, faces_as_cycles, skip)
    ctx.nbase = nbase
    ctx.frame_invariants = True
    return _diff(a, b, ctx)


def diff_unchanged(a, b, nbase=0, skip=(), ops=1):
    """'The shape is as it was': 1e-12 relative on the geometry, rtol 1e-11 elsewhere,
    per operation performed between the two snapshots (``ops``): each operation
    that moves the shape and moves it back is allowed its last-digit rounding."""
    L = length_scale(a, b)
    ops = max(1, int(ops))
    ctx = Ctx(L, 1e-11 * ops, 1e-11 * ops, False, skip)
    ctx.lenient_raise_type = True
    ctx.nbase = nbase
    out = _diff(a, b, ctx)
    geo = Ctx(L, 0.0, 0.0, False, ())
    eps = np.finfo(float).eps
    for n in ("vertices", "normal", "radius", "a", "b", "c", "centroid", "center"):
        if n in a and n in b and a[n][0] == "ok" and b[n][0] == "ok":
            va, vb = a[n][1], b[n][1]
            if isinstance(va, (np.ndarray, float, int)) and isinstance(vb, (np.ndarray, float, int)):
                # 1e-12 relative per operation (~4500 ulp): moving a shape to the origin and
                # back goes through coxeter's centroid/volume recomputation, whose
                # cancellation error at an offset of 10 diameters is ~1e-13 of the offset
                tol = 1e-12 * ops * (1.0 if n == "normal" else L)
                if n in ("centroid", "center"):
                    tol *= 64  # derived quantity
                ok, why = _num_close(va, vb, 0.0, tol)
                if not ok and not any(x[0] == n for x in out):
                    out.append((n, "beyond last-digit rounding: " + why))
    # faces must be identical lists
    if "faces" in a and "faces" in b and a["faces"][0] == "ok" and b["faces"][0] == "ok":
        fa, fb = a["faces"][1], b["faces"][1]
        same = len(fa) == len(fb) and all(
            np.array_equal(np.asarray(x), np.asarray(y)) for x, y in zip(fa, fb))
        if not same and not any(x[0] == "faces" for x in out):
            out.append(("faces", "face lists differ"))
    del geo
    return out


# --------------------------------------------------------------------------
# exact comparison (C16: a query that did not move the shape changes nothing at all)
# --------------------------------------------------------------------------
def _exact_same(a, b):
    if isinstance(a, np.ndarray) or isinstance(b, np.ndarray):
        if not (isinstance(a, np.ndarray) and isinstance(b, np.ndarray)):
            return False
        if a.shape != b.shape:
            return False
        if a.dtype.kind in "fc" or b.dtype.kind in "fc":
            return bool(np.array_equal(a, b, equal_nan=True))
        return bool(np.array_equal(a, b))
    if isinstance(a, float) and isinstance(b, float):
        return a == b or (a != a and b != b)
    if isinstance(a, complex) and isinstance(b, complex):
        return a == b or (a != a and b != b)
    if isinstance(a, dict) and isinstance(b, dict):
        return set(a) == set(b) and all(_exact_same(a[k], b[k]) for k in a)
    if isinstance(a, (list, tuple)) and isinstance(b, (list, tuple)):
        return len(a) == len(b) and all(_exact_same(x, y) for x, y in zip(a, b))
    return a == b


GEOMETRY_KEYS = ("vertices", "faces", "normal", "radius", "a", "b", "c")


def geometry_bitwise_same(a, b):
    """Both snapshots show bit-for-bit the same defining geometry (vertices, faces, normal,
    radii / semi-axes; the centre for shapes without vertices)."""
    keys = [k for k in GEOMETRY_KEYS if k in a or k in b]
    if "vertices" not in a:
        keys += [k for k in ("centroid", "center") if k in a]
    for k in keys:
        if k not in a or k not in b or a[k][0] != "ok" or b[k][0] != "ok":
            return False
        if not _exact_same(a[k][1], b[k][1]):
            return False
    return bool(keys)


def diff_exact(a, b, skip=()):
    """Observables that are not bit-for-bit what they were (raising before and after is
    'the same', whatever the exception type)."""
    out = []
    for k in sorted(set(a) | set(b)):
        if k in skip or k not in a or k not in b:
            continue
        ka, kb = a[k], b[k]
        if ka[0] != kb[0]:
            out.append((k, "%s before, %s after" % (ka[0], kb[0])))
        elif ka[0] == "ok" and not _exact_same(ka[1], kb[1]):
            why = ""
            try:
                xa, xb = np.asarray(ka[1], float), np.asarray(kb[1], float)
                if xa.shape == xb.shape:
                    with np.errstate(all="ignore"):
                        why = " (max|diff| = %.3g)" % float(np.nanmax(np.abs(xa - xb)))
            except Exception:  # noqa: BLE001
                pass
            out.append((k, "not bit-for-bit what it was" + why))
    return out
