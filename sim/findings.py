"""Known-findings file: committed, never written at run time.

Entries: {"property", "status": "known"|"fixed", "match": {key: value|[values]},
          "what": text, "commit": sha (for fixed)}.
A violation signature matches an entry when every key of ``match`` is present in
the signature with an equal value (or a value in the list).  Only ``known``
entries suppress; ``fixed`` entries are documentation and suppress nothing.
"""

import json
import os

PATH = os.path.join(os.path.dirname(os.path.dirname(os.path.abspath(__file__))),
                    "known_findings.json")


def load():
    if not os.path.exists(PATH):
        return []
    with open(PATH) as f:
        return json.load(f).get("findings", [])


def match(sig, findings=None):
    findings = load() if findings is None else findings
    for e in findings:
        if e.get("status") != "known":
            continue
        if e.get("property") != sig.get("property"):
            continue
        ok = True
        for k, v in e.get("match", {}).items():
            have = sig.get(k)
            if isinstance(v, list):
                if have not in v:
                    ok = False
            elif have != v:
                ok = False
        if ok:
            return e
    return None
