"""Base-shape recipes (initial states) and geometric helpers.

Everything here is independent of coxeter: hull faces come from scipy's Qhull
plus a local coplanar-merge, so a defect in the code under test cannot leak
into the generated inputs.  All randomness comes from the ``Stream`` passed in.
"""

import math

import numpy as np
from scipy.spatial import ConvexHull

GOLD = (1 + 5 ** 0.5) / 2


# --------------------------------------------------------------------------
# small linear algebra helpers
# --------------------------------------------------------------------------
def quat_to_matrix(q):
    w, x, y, z = q
    return np.array(
        [
            [1 - 2 * (y * y + z * z), 2 * (x * y - z * w), 2 * (x * z + y * w)],
            [2 * (x * y + z * w), 1 - 2 * (x * x + z * z), 2 * (y * z - x * w)],
            [2 * (x * z - y * w), 2 * (y * z + x * w), 1 - 2 * (x * x + y * y)],
        ]
    )


def random_rotation(rng):
    q = np.array(rng.unit_vector(4))
    return quat_to_matrix(q)


def kabsch(P, Q):
    """Best orthogonal map R (3x3, may be improper) and residual with Q ~ P @ R.T.

    Both point sets are centred first.  Returns (R, det, rms_residual).
    """
    P = np.asarray(P, float)
    Q = np.asarray(Q, float)
    Pc = P - P.mean(axis=0)
    Qc = Q - Q.mean(axis=0)
    H = Pc.T @ Qc
    U, S, Vt = np.linalg.svd(H)
    R = (U @ Vt).T  # unconstrained orthogonal Procrustes solution
    det = float(np.linalg.det(R))
    res = float(np.sqrt(np.mean(np.sum((Pc @ R.T - Qc) ** 2, axis=1))))
    return R, det, res


def kabsch_proper(P, Q):
    """Best *proper* rotation R with Q-mean ~ (P-mean) @ R.T; returns (R, rms)."""
    P = np.asarray(P, float)
    Q = np.asarray(Q, float)
    Pc = P - P.mean(axis=0)
    Qc = Q - Q.mean(axis=0)
    H = Pc.T @ Qc
    U, S, Vt = np.linalg.svd(H)
    d = np.sign(np.linalg.det(U @ Vt))
    D = np.diag([1.0, 1.0, d if d != 0 else 1.0])
    R = (U @ D @ Vt).T
    res = float(np.sqrt(np.mean(np.sum((Pc @ R.T - Qc) ** 2, axis=1))))
    return R, res


# --------------------------------------------------------------------------
# hull faces, independent of coxeter
# --------------------------------------------------------------------------
def hull_faces(verts):
    """Faces of the convex hull as CCW-from-outside vertex cycles."""
    verts = np.asarray(verts, float)
    hull = ConvexHull(verts)
    groups = {}
    for simplex, eq in zip(hull.simplices, hull.equations):
        key = None
        for k in groups:
            if np.allclose(groups[k][0], eq, rtol=0, atol=1e-9):
                key = k
                break
        if key is None:
            key = len(groups)
            groups[key] = (eq, set())
        groups[key][1].update(int(i) for i in simplex)
    faces = []
    for eq, idx in groups.values():
        idx = sorted(idx)
        n = eq[:3]
        pts = verts[idx]
        c = pts.mean(axis=0)
        # in-plane basis
        a = np.cross(n, [1.0, 0, 0])
        if np.linalg.norm(a) < 0.3:
            a = np.cross(n, [0, 1.0, 0])
        a /= np.linalg.norm(a)
        b = np.cross(n, a)
        ang = np.arctan2((pts - c) @ b, (pts - c) @ a)
        order = np.argsort(ang)
        faces.append([idx[i] for i in order])
    faces.sort(key=lambda f: (min(f), sorted(f)))
    # rotate each cycle so the smallest index comes first
    out = []
    for f in faces:
        k = f.index(min(f))
        out.append(f[k:] + f[:k])
    return out


def triangulate_faces(faces):
    tris = []
    for f in faces:
        for i in range(1, len(f) - 1):
            tris.append([f[0], f[i], f[i + 1]])
    return tris


# --------------------------------------------------------------------------
# convex vertex sets
# --------------------------------------------------------------------------
def _regular_polygon(n, r=1.0, phase=0.0):
    return [[r * math.cos(phase + 2 * math.pi * k / n), r * math.sin(phase + 2 * math.pi * k / n)]
            for k in range(n)]


def cube():
    return [[x, y, z] for x in (-1, 1) for y in (-1, 1) for z in (-1, 1)]


def box(a, b, c):
    return [[x * a, y * b, z * c] for x in (-1, 1) for y in (-1, 1) for z in (-1, 1)]


def tetrahedron():
    return [[1, 1, 1], [1, -1, -1], [-1, 1, -1], [-1, -1, 1]]


def octahedron():
    return [[1, 0, 0], [-1, 0, 0], [0, 1, 0], [0, -1, 0], [0, 0, 1], [0, 0, -1]]


def icosahedron():
    p = GOLD
    v = []
    for a in (-1, 1):
        for b in (-p, p):
            v += [[0, a, b], [a, b, 0], [b, 0, a]]
    return v


def dodecahedron():
    p = GOLD
    v = [[x, y, z] for x in (-1, 1) for y in (-1, 1) for z in (-1, 1)]
    for a in (-1 / p, 1 / p):
        for b in (-p, p):
            v += [[0, a, b], [a, b, 0], [b, 0, a]]
    return v


def snub_cube():
    """Chiral Archimedean solid (24 vertices): even permutations with an even
    number of minus signs and odd permutations with an odd number."""
    t = 1.8392867552141612  # tribonacci constant
    base = [1.0, 1.0 / t, t]
    even = [(0, 1, 2), (1, 2, 0), (2, 0, 1)]
    odd = [(0, 2, 1), (2, 1, 0), (1, 0, 2)]
    out = []
    for perm_set, parity in ((even, 0), (odd, 1)):
        for perm in perm_set:
            for sx in (1, -1):
                for sy in (1, -1):
                    for sz in (1, -1):
                        minus = (sx < 0) + (sy < 0) + (sz < 0)
                        if minus % 2 == parity:
                            v = [base[perm[0]] * sx, base[perm[1]] * sy, base[perm[2]] * sz]
                            out.append(v)
    return out


def rhombic_dodecahedron():
    return [[x, y, z] for x in (-1.0, 1.0) for y in (-1.0, 1.0) for z in (-1.0, 1.0)] + \
        [[2.0, 0, 0], [-2.0, 0, 0], [0, 2.0, 0], [0, -2.0, 0], [0, 0, 2.0], [0, 0, -2.0]]


def prism(n, h=1.0):
    ring = _regular_polygon(n)
    return [[x, y, -h / 2] for x, y in ring] + [[x, y, h / 2] for x, y in ring]


def antiprism(n, h=1.0):
    r1 = _regular_polygon(n)
    r2 = _regular_polygon(n, phase=math.pi / n)
    return [[x, y, -h / 2] for x, y in r1] + [[x, y, h / 2] for x, y in r2]


def pyramid(n, h=1.0):
    return [[x, y, 0.0] for x, y in _regular_polygon(n)] + [[0.0, 0.0, h]]


def bipyramid(n, h=1.0):
    return [[x, y, 0.0] for x, y in _regular_polygon(n)] + [[0.0, 0.0, h], [0.0, 0.0, -h]]


def ellipsoid_points(rng, n, axes=None):
    """n random points on an ellipsoid, rejected until in generic convex position."""
    if axes is None:
        axes = [rng.uniform(0.5, 2.0) for _ in range(3)]
    for _ in range(50):
        pts = np.array([rng.unit_vector(3) for _ in range(n)]) * np.array(axes)
        try:
            hull = ConvexHull(pts)
        except Exception:
            continue
        if len(hull.vertices) != n:
            continue
        # keep vertices well separated so constructor tolerances are not the subject
        d = np.linalg.norm(pts[:, None] - pts[None], axis=-1) + np.eye(n) * 10
        if d.min() < 0.15:
            continue
        return pts.tolist()
    return (np.array(icosahedron()) * np.array(axes)).tolist()


def ellipsoid_points_fast(rng, n):
    """n points on an ellipsoid on a jittered spiral (well separated, generic)."""
    axes = [rng.uniform(0.7, 1.5) for _ in range(3)]
    pts = []
    for k in range(n):
        z = 1 - 2 * (k + 0.5) / n
        r = math.sqrt(max(0.0, 1 - z * z))
        phi = k * math.pi * (3 - 5 ** 0.5) + rng.uniform(-0.02, 0.02)
        pts.append([axes[0] * r * math.cos(phi), axes[1] * r * math.sin(phi), axes[2] * z])
    return pts


CONVEX3D = {
    "cube": lambda rng: cube(),
    "box": lambda rng: box(rng.uniform(0.5, 2), rng.uniform(0.5, 2), rng.uniform(0.5, 2)),
    "tetrahedron": lambda rng: tetrahedron(),
    "octahedron": lambda rng: octahedron(),
    "icosahedron": lambda rng: icosahedron(),
    "dodecahedron": lambda rng: dodecahedron(),
    "snub_cube": lambda rng: snub_cube(),
    "prism": lambda rng: prism(rng.randint(3, 8), rng.uniform(0.6, 2.0)),
    "antiprism": lambda rng: antiprism(rng.randint(3, 6), rng.uniform(0.6, 1.5)),
    "pyramid": lambda rng: pyramid(rng.randint(3, 7), rng.uniform(0.6, 2.0)),
    "bipyramid": lambda rng: bipyramid(rng.randint(3, 6), rng.uniform(0.6, 2.0)),
    "ellipsoid_pts": lambda rng: ellipsoid_points(rng, rng.randint(4, 16)),
    # a dual (Catalan) solid: has an insphere, no circumsphere
    "rhombic_dodecahedron": lambda rng: rhombic_dodecahedron(),
}


# --------------------------------------------------------------------------
# non-convex polyhedra (vertices, faces, faces_are_convex)
# --------------------------------------------------------------------------
def extrude(poly2d, cap_pieces, h=1.0):
    """Extrude a CCW simple polygon; caps given as lists of index cycles (CCW)."""
    n = len(poly2d)
    verts = [[x, y, 0.0] for x, y in poly2d] + [[x, y, h] for x, y in poly2d]
    faces = []
    for piece in cap_pieces:
        faces.append([i for i in reversed(piece)])  # bottom: outward = -z
        faces.append([i + n for i in piece])  # top: outward = +z
    for i in range(n):
        j = (i + 1) % n
        faces.append([i, j, j + n, i + n])
    return verts, faces


L_POLY = [[0, 0], [2, 0], [2, 1], [1, 1], [1, 2], [0, 2]]


def l_prism_split():
    """L-shaped prism, each cap split into two convex quads by a diagonal cut
    between existing vertices (no T-junction).  Merging coplanar faces would
    have to produce a non-convex face."""
    v, f = extrude(L_POLY, [[0, 1, 2, 3], [0, 3, 4, 5]])
    return v, f, True


def l_prism_tris():
    """The L-prism given as triangles only, walls first: merge_faces merges the coplanar
    wall triangles, then fails on the caps (their union is not convex)."""
    v, f = extrude(L_POLY, [[0, 1, 2, 3], [0, 3, 4, 5]])
    walls = [x for x in f if not (all(i < 6 for i in x) or all(i >= 6 for i in x))]
    caps = [x for x in f if x not in walls]
    return v, triangulate_faces(walls + caps), True


def l_prism_nonconvex():
    v, f = extrude(L_POLY, [[0, 1, 2, 3, 4, 5]])
    return v, f, False


def u_prism_split():
    poly = [[0, 0], [3, 0], [3, 2], [2, 2], [2, 1], [1, 1], [1, 2], [0, 2]]
    # pieces: bottom bar split in trapezoids + two legs; all convex, cut along
    # diagonals between existing vertices
    pieces = [[0, 1, 4, 5], [1, 2, 3, 4], [0, 5, 6, 7]]
    v, f = extrude(poly, pieces)
    return v, f, True


def notched_box_tris():
    """A convex polyhedron given as triangles only: a box (non-convex-free)
    with every quad cut into two triangles -> merge_faces changes something."""
    v = box(1.0, 1.5, 0.7)
    f = triangulate_faces(hull_faces(v))
    return v, f, True


def dented_octahedron(depth=0.35):
    """Non-convex, all faces triangles: octahedron with one face pushed in."""
    v = [list(map(float, p)) for p in octahedron()]
    faces = hull_faces(v)
    # push in face containing vertices 0,2,4 by adding an interior apex
    target = None
    for f in faces:
        if set(f) == {0, 2, 4}:
            target = f
    c = np.mean(np.array(v)[target], axis=0)
    apex = (c * (1 - depth * 2)).tolist()
    v.append(apex)
    k = len(v) - 1
    new_faces = [f for f in faces if f is not target]
    a, b, cc = target
    new_faces += [[a, b, k], [b, cc, k], [cc, a, k]]
    return v, new_faces, True


def square_ring():
    """Genus-1 solid: a square frame (outer half-width 2, hole half-width 1, height 1) with
    trapezoidal top/bottom faces - V=16, F=16, E=32, so V-E+F = 0."""
    c = [(1, 1), (-1, 1), (-1, -1), (1, -1)]  # counter-clockwise seen from +z
    ob = [[2.0 * x, 2.0 * y, 0.0] for x, y in c]
    ot = [[2.0 * x, 2.0 * y, 1.0] for x, y in c]
    ib = [[1.0 * x, 1.0 * y, 0.0] for x, y in c]
    it = [[1.0 * x, 1.0 * y, 1.0] for x, y in c]
    v = ob + ot + ib + it
    OB, OT, IB, IT = 0, 4, 8, 12
    faces = []
    for i in range(4):
        j = (i + 1) % 4
        faces.append([OT + i, OT + j, IT + j, IT + i])  # top, +z
        faces.append([OB + i, IB + i, IB + j, OB + j])  # bottom, -z
        faces.append([OB + i, OB + j, OT + j, OT + i])  # outer wall
        faces.append([IB + i, IT + i, IT + j, IB + j])  # inner wall (faces the hole)
    return v, faces, True


NONCONVEX3D = {
    "square_ring": square_ring,
    "l_prism_split": l_prism_split,
    "l_prism_tris": l_prism_tris,
    "l_prism_nonconvex": l_prism_nonconvex,
    "u_prism_split": u_prism_split,
    "dented_octahedron": dented_octahedron,
}


# --------------------------------------------------------------------------
# polygons (2-D vertex lists, CCW)
# --------------------------------------------------------------------------
def star_polygon(rng, n):
    angs = sorted(rng.uniform(0, 2 * math.pi) for _ in range(n))
    # enforce minimal angular separation
    angs = [2 * math.pi * (k + 0.15 + 0.7 * rng.random()) / n for k in range(n)]
    return [[r * math.cos(a), r * math.sin(a)] for a, r in
            ((a, rng.uniform(0.5, 1.5)) for a in angs)]


def comb_polygon(teeth):
    pts = [[0.0, 0.0], [2.0 * teeth, 0.0]]
    x = 2.0 * teeth
    for _ in range(teeth):
        pts += [[x, 2.0], [x - 1.0, 2.0], [x - 1.0, 1.0], [x - 2.0, 1.0]]
        x -= 2.0
    # the last tooth ends at x=0,y=1; close via (0,1)->(0,0) (drop duplicate)
    pts[-1] = [0.0, 1.0]
    return pts


def convex_polygon_pts(rng, n):
    a, b = rng.uniform(0.5, 2.0), rng.uniform(0.5, 2.0)
    angs = [2 * math.pi * (k + 0.2 + 0.6 * rng.random()) / n for k in range(n)]
    return [[a * math.cos(t), b * math.sin(t)] for t in angs]


def rectangle(a, b):
    return [[-a, -b], [a, -b], [a, b], [-a, b]]


def kite():
    return [[0.0, -2.0], [1.0, 0.0], [0.0, 1.0], [-1.0, 0.0]]


POLY2D_CONVEX = {
    "regular": lambda rng: _regular_polygon(rng.randint(3, 12)),
    "rectangle": lambda rng: rectangle(rng.uniform(0.5, 2), rng.uniform(0.5, 2)),
    "kite": lambda rng: kite(),
    "convex_pts": lambda rng: convex_polygon_pts(rng, rng.randint(3, 12)),
    "square": lambda rng: rectangle(1.0, 1.0),
}
POLY2D_NONCONVEX = {
    "star": lambda rng: star_polygon(rng, rng.randint(5, 14)),
    "comb": lambda rng: comb_polygon(rng.randint(1, 3)),
    "l_poly": lambda rng: [list(map(float, p)) for p in L_POLY],
}


# --------------------------------------------------------------------------
# placement
# --------------------------------------------------------------------------
def place3d(verts, rng, rotate=True, scale=None, offset_diam=None, noise=None):
    """Random proper rotation, scale 10^U(-2,2), offset 0/1/10 diameters.
    ``noise``: per-coordinate perturbation (relative to the size) added last - with
    ``rotate=False`` this gives an *almost* axis-aligned shape whose coordinates about the
    centre are tiny but not zero (coordinates read from a file, round-off of an earlier
    transformation)."""
    v = np.asarray(verts, float)
    v = v - v.mean(axis=0)
    diam = float(np.max(np.linalg.norm(v[:, None] - v[None], axis=-1)))
    if scale is None:
        scale = 10 ** rng.uniform(-2, 2)
    if offset_diam is None:
        offset_diam = rng.choice([0.0, 1.0, 1.0, 10.0])
    R = random_rotation(rng) if rotate else np.eye(3)
    v = (v @ R.T) * scale
    off = np.array(rng.unit_vector(3)) * offset_diam * diam * scale
    if noise:
        v = v + np.array([[rng.uniform(-1, 1) for _ in range(3)] for _ in range(len(v))]) \
            * noise * diam * scale
    return (v + off), R, scale, off


def embed2d(poly2d, rng, in_plane=None, scale=None, offset_diam=None):
    """Embed a 2-D polygon in 3-space.  in_plane=True keeps it in z=0."""
    p = np.asarray(poly2d, float)
    p3 = np.hstack([p, np.zeros((len(p), 1))])
    p3 = p3 - p3.mean(axis=0)
    diam = float(np.max(np.linalg.norm(p3[:, None] - p3[None], axis=-1)))
    if scale is None:
        scale = 10 ** rng.uniform(-2, 2)
    if offset_diam is None:
        offset_diam = rng.choice([0.0, 1.0, 1.0, 10.0])
    if in_plane is None:
        in_plane = rng.chance(0.4)
    if not in_plane and rng.chance(0.15):
        # an exactly vertical coordinate plane (xz or yz): the normal has a zero z-component
        a = rng.uniform(0, 2 * math.pi)
        ca, sa = math.cos(a), math.sin(a)
        spin = np.array([[ca, -sa, 0], [sa, ca, 0], [0, 0, 1.0]])
        tilt = np.array([[1.0, 0, 0], [0, 0, -1.0], [0, 1.0, 0]]) if rng.chance(0.5) else \
            np.array([[0, 0, 1.0], [0, 1.0, 0], [-1.0, 0, 0]])
        R = tilt @ spin
        off_dir = np.array(rng.unit_vector(3))
    elif in_plane:
        a = rng.uniform(0, 2 * math.pi)
        R = np.array([[math.cos(a), -math.sin(a), 0], [math.sin(a), math.cos(a), 0], [0, 0, 1.0]])
        off_dir = np.array([math.cos(a * 1.7), math.sin(a * 1.7), 0.0])
    else:
        R = random_rotation(rng)
        off_dir = np.array(rng.unit_vector(3))
    v = (p3 @ R.T) * scale + off_dir * offset_diam * diam * scale
    normal = R @ np.array([0.0, 0.0, 1.0])
    return v, normal


# --------------------------------------------------------------------------
# resolved base specs  ->  coxeter objects
# --------------------------------------------------------------------------
def tolist(a):
    return np.asarray(a, float).tolist()


def build(base, keep=None):
    """Instantiate the coxeter object described by a resolved base spec.
    ``keep``: a list that receives every ndarray handed to the constructor (the caller's
    arrays - a hostile caller overwrites them afterwards)."""
    import coxeter.shapes as S

    def arr(x, *a, **k):
        out = np.array(x, *a, **k)
        if keep is not None:
            keep.append(out)
        return out

    cls = base["cls"]
    if cls == "ConvexPolyhedron":
        return S.ConvexPolyhedron(arr(base["vertices"], float))
    if cls == "Polyhedron":
        dt = base.get("face_dtype", "int")
        if dt == "list":
            faces = [[int(i) for i in f] for f in base["faces"]]
        else:
            faces = [np.array(f, dtype={"int": int, "int32": np.int32, "uint64": np.uint64,
                                        "uint8": np.uint8}[dt]) for f in base["faces"]]
        return S.Polyhedron(
            arr(base["vertices"], float), faces,
            faces_are_convex=base.get("faces_are_convex", True),
        )
    if cls == "ConvexSpheropolyhedron":
        return S.ConvexSpheropolyhedron(arr(base["vertices"], float), base["radius"])
    nrm = base.get("normal")
    if nrm is not None and keep is not None:
        nrm = arr(nrm, float)  # the caller's normal as an array it keeps
    if cls == "Polygon":
        return S.Polygon(arr(base["vertices"], float), normal=nrm)
    if cls == "ConvexPolygon":
        return S.ConvexPolygon(arr(base["vertices"], float), normal=nrm)
    if cls == "ConvexSpheropolygon":
        return S.ConvexSpheropolygon(arr(base["vertices"], float), base["radius"],
                                     normal=nrm)
    if cls == "Circle":
        return S.Circle(base["radius"], center=list(base["center"]))
    if cls == "Sphere":
        return S.Sphere(base["radius"], center=list(base["center"]))
    if cls == "Ellipse":
        return S.Ellipse(base["a"], base["b"], center=list(base["center"]))
    if cls == "Ellipsoid":
        return S.Ellipsoid(base["a"], base["b"], base["c"], center=list(base["center"]))
    raise KeyError(cls)


def sibling(base):
    """A second, different shape of the same class (a *bystander*): vertex-based shapes are
    scaled by 1.7 and shifted, curved shapes get permuted and rescaled semi-axes.  Two live
    objects of one class must not see each other's state (class-level caches, shared
    default containers)."""
    b = dict(base)
    if "vertices" in base:
        v = np.array(base["vertices"], float)
        m = v.mean(axis=0)
        ext = float(np.max(np.linalg.norm(v - m, axis=1))) or 1.0
        b["vertices"] = ((v - m) * 1.7 + m + np.array([0.9, -1.3, 0.4]) * ext).tolist()
        if "normal" in base and base["normal"] is not None:
            # keep the polygon in a plane with the same normal
            n = np.array(base["normal"], float)
            n = n / np.linalg.norm(n)
            sh = np.array([0.9, -1.3, 0.4]) * ext
            b["vertices"] = ((v - m) * 1.7 + m + (sh - np.dot(sh, n) * n)).tolist()
        if base.get("radius") is not None:
            b["radius"] = float(base["radius"]) * 1.7 + 0.1 * ext
        return b
    c = np.array(base["center"], float)
    b["center"] = (c + np.array([0.7, -0.4, 0.0 if base["cls"] in ("Circle", "Ellipse")
                                 else 0.3]) * (base.get("radius") or base.get("a"))).tolist()
    if "radius" in base:
        b["radius"] = float(base["radius"]) * 1.7
    if base["cls"] == "Ellipse":
        b["a"], b["b"] = float(base["b"]) * 1.7, float(base["a"]) * 0.6
    if base["cls"] == "Ellipsoid":
        b["a"], b["b"], b["c"] = float(base["c"]) * 1.7, float(base["a"]) * 0.6, \
            float(base["b"]) * 1.3
    return b


VERTEX3D = ("ConvexPolyhedron", "Polyhedron", "ConvexSpheropolyhedron")
VERTEX2D = ("Polygon", "ConvexPolygon", "ConvexSpheropolygon")
CURVED = ("Circle", "Ellipse", "Sphere", "Ellipsoid")


def gen_base(rng, cls, family=None, allow_scramble=False, allow_invalid_faces=False,
             **place_kw):
    """Draw a resolved base spec for class ``cls``."""
    if cls in ("ConvexPolyhedron", "ConvexSpheropolyhedron"):
        fam = family or rng.choice(sorted(CONVEX3D))
        v0 = CONVEX3D[fam](rng)
        v, R, s, off = place3d(v0, rng, **place_kw)
        base = {"cls": cls, "family": fam, "vertices": tolist(v)}
        if cls == "ConvexSpheropolyhedron":
            size = s * float(np.max(np.linalg.norm(np.asarray(v0, float), axis=1)))
            base["radius"] = 0.0 if rng.chance(0.25) else size * rng.uniform(0.05, 0.6)
        return base
    if cls == "Polyhedron":
        fams = sorted(CONVEX3D) + sorted(NONCONVEX3D) + ["tri:" + k for k in
                                                          ("cube", "box", "prism", "dodecahedron",
                                                           "pyramid")]
        if not allow_invalid_faces:
            fams = [f for f in fams if f != "l_prism_nonconvex"]
        fam = family or rng.choice(fams)
        if fam in NONCONVEX3D:
            v0, faces, fac = NONCONVEX3D[fam]()
        elif fam.startswith("tri:"):
            v0 = CONVEX3D[fam[4:]](rng)
            faces = triangulate_faces(hull_faces(v0))
            fac = True
        else:
            v0 = CONVEX3D[fam](rng)
            faces = hull_faces(v0)
            fac = True
        if allow_scramble and fac and rng.chance(0.25):
            # scramble orientation/rotation of some faces so sort_faces has work to do
            faces = [list(f) for f in faces]
            mode = rng.choice(["reverse", "reverse", "sequence", "both"])
            for f in faces:
                if mode != "sequence" and rng.chance(0.4):
                    f.reverse()
            if mode != "reverse":
                # ... and list one face out of cyclic sequence (a, c, b, d): sort_faces
                # re-sequences the vertices of every face before it orients them
                big = [f for f in faces if len(f) >= 4]
                if big:
                    f = rng.choice(big)
                    k = rng.randrange(len(f) - 1)
                    f[k], f[k + 1] = f[k + 1], f[k]
            scr = True
        else:
            scr = False
        v, R, s, off = place3d(v0, rng, **place_kw)
        out = {"cls": cls, "family": fam, "vertices": tolist(v),
               "faces": [list(map(int, f)) for f in faces], "faces_are_convex": fac,
               "scrambled": scr}
        if rng.chance(0.3):
            # the caller's index type: lists, or arrays of another integer type
            out["face_dtype"] = rng.choice(["list", "int32", "uint64", "uint8"])
        return out
    if cls in VERTEX2D:
        if cls == "Polygon":
            fams = sorted(POLY2D_CONVEX) + sorted(POLY2D_NONCONVEX)
            fam = family or rng.choice(fams)
            p = (POLY2D_CONVEX.get(fam) or POLY2D_NONCONVEX[fam])(rng)
            if rng.chance(0.3):
                p = p[::-1]  # clockwise input
        else:
            fam = family or rng.choice(sorted(POLY2D_CONVEX))
            p = POLY2D_CONVEX[fam](rng)
        v, normal = embed2d(p, rng, **place_kw)
        base = {"cls": cls, "family": fam, "vertices": tolist(v)}
        if rng.chance(0.5):
            base["normal"] = tolist(normal if rng.chance(0.7) else -normal)
        else:
            base["normal"] = None
        if cls == "ConvexSpheropolygon":
            size = float(np.max(np.linalg.norm(np.asarray(v) - np.mean(v, axis=0), axis=1)))
            base["radius"] = 0.0 if rng.chance(0.25) else size * rng.uniform(0.05, 0.6)
        return base
    if cls in CURVED:
        s = place_kw.get("scale") or 10 ** rng.uniform(-2, 2)
        offd = rng.choice([0.0, 1.0, 10.0])
        c = (np.array(rng.unit_vector(3)) * offd * 2 * s)
        if cls in ("Circle", "Ellipse"):
            c[2] = 0.0
        base = {"cls": cls, "family": cls.lower(), "center": tolist(c)}
        if cls in ("Circle", "Sphere"):
            base["radius"] = s
        else:
            mode = rng.choice(["lt", "eq", "gt"])
            a = s
            b = s * (rng.uniform(1.2, 3) if mode == "lt" else 1.0 if mode == "eq"
                     else rng.uniform(0.3, 0.8))
            base["a"], base["b"] = a, b
            if cls == "Ellipsoid":
                base["c"] = s * rng.uniform(0.3, 3)
        return base
    raise KeyError(cls)
