"""Independent mesh-file parsers used as the C20 oracle.

Written for this purpose from the format descriptions (Wavefront OBJ, Geomview
OFF, Stanford PLY 1.0 ascii, legacy VTK 3.0 POLYDATA, ASCII STL, X3D 4.0
IndexedFaceSet, XHTML wrapper).  Nothing from coxeter or xml.etree is used:
XML goes through pyexpat directly.

Each parser returns ``Parsed`` with ``verts`` (list of 3-tuples of float, or
None), ``faces`` (list of index lists into verts, 0-based) and ``issues`` (list
of (code, text)).  Parsers *recover* after recording an issue wherever they
can, so that a second defect behind a known one is still seen.
"""

import re
import xml.parsers.expat as expat


class Parsed:
    def __init__(self):
        self.verts = []
        self.faces = []
        self.issues = []
        self.tris = []  # STL only: (normal, (p0, p1, p2))
        self.meta = {}

    def issue(self, code, text=""):
        self.issues.append((code, str(text)[:200]))


def _f(tok, out, what):
    try:
        v = float(tok)
    except ValueError:
        out.issue(what + "-bad-float", tok)
        return None
    if v != v or v in (float("inf"), float("-inf")):
        out.issue(what + "-nonfinite", tok)
    return v


_INT = re.compile(r"^[+-]?\d+$")


def _i(tok, out, what):
    if not _INT.match(tok):
        out.issue(what + "-bad-int", tok)
        digits = re.sub(r"[^0-9-]", "", tok)
        try:
            return int(digits)
        except ValueError:
            return None
    return int(tok)


def _text(data, out, fmt):
    try:
        return data.decode("utf-8")
    except UnicodeDecodeError as e:
        out.issue(fmt + "-not-utf8", e)
        return data.decode("utf-8", "replace")


# ------------------------------------------------------------------ OBJ
def parse_obj(data):
    out = Parsed()
    txt = _text(data, out, "obj")
    for ln, line in enumerate(txt.split("\n")):
        s = line.strip()
        if not s or s.startswith("#"):
            continue
        tok = s.split()
        if tok[0] == "v":
            if len(tok) not in (4, 5):
                out.issue("obj-vertex-arity", s)
                continue
            xyz = [_f(t, out, "obj-vertex") for t in tok[1:4]]
            if None not in xyz:
                out.verts.append(tuple(xyz))
        elif tok[0] == "f":
            if len(tok) < 4:
                out.issue("obj-face-arity", s)
                continue
            face = []
            for t in tok[1:]:
                k = _i(t.split("/")[0], out, "obj-face-index")
                if k is None:
                    continue
                if k == 0:
                    out.issue("obj-face-index-zero", s)
                    continue
                face.append(k - 1 if k > 0 else len(out.verts) + k)
            out.faces.append(face)
        elif tok[0] in ("vn", "vt", "g", "o", "s", "usemtl", "mtllib", "vp", "l", "p"):
            continue
        else:
            out.issue("obj-unknown-statement", s)
    _range_check(out, "obj")
    return out


def _range_check(out, fmt):
    n = len(out.verts)
    for f in out.faces:
        for k in f:
            if not (0 <= k < n):
                out.issue(fmt + "-index-out-of-range", "%s with %d vertices" % (f, n))
                return


# ------------------------------------------------------------------ OFF
def parse_off(data):
    out = Parsed()
    txt = _text(data, out, "off")
    lines = []
    for line in txt.split("\n"):
        s = line.split("#", 1)[0].strip()
        if s:
            lines.append(s)
    if not lines:
        out.issue("off-empty")
        return out
    head = lines[0].split()
    if head[0] != "OFF":
        out.issue("off-missing-magic", lines[0])
        rest = lines
    else:
        rest = lines[1:]
        if len(head) > 1:  # counts may follow on the same line
            rest = [" ".join(head[1:])] + rest
    if not rest:
        out.issue("off-missing-counts")
        return out
    ctok = rest[0].split()
    if len(ctok) != 3:
        out.issue("off-counts-arity", rest[0])
    counts = []
    for name, t in zip(("nv", "nf", "ne"), ctok + ["0"] * 3):
        if not _INT.match(t):
            out.issue("off-counts-noninteger", "%s=%r" % (name, t))
        digits = re.sub(r"[^0-9]", "", t)
        counts.append(int(digits) if digits else 0)
    nv, nf, ne = counts[:3]
    out.meta["declared"] = (nv, nf, ne)
    body = rest[1:]
    for s in body[:nv]:
        tok = s.split()
        if len(tok) < 3:
            out.issue("off-vertex-arity", s)
            continue
        xyz = [_f(t, out, "off-vertex") for t in tok[:3]]
        if None not in xyz:
            out.verts.append(tuple(xyz))
    for s in body[nv:nv + nf]:
        tok = s.split()
        n = _i(tok[0], out, "off-face-count")
        idx = [_i(t, out, "off-face-index") for t in tok[1:]]
        if n is None or None in idx:
            continue
        if n != len(idx):
            # trailing colour values are legal only as 3/4 numbers after n indices
            if len(idx) > n and len(idx) - n in (3, 4):
                idx = idx[:n]
            else:
                out.issue("off-face-arity", s)
        out.faces.append(idx[:n] if n <= len(idx) else idx)
    if len(out.verts) != nv:
        out.issue("off-count-mismatch", "declared %d vertices, found %d" % (nv, len(out.verts)))
    if len(out.faces) != nf:
        out.issue("off-count-mismatch", "declared %d faces, found %d" % (nf, len(out.faces)))
    if len(body) > nv + nf:
        out.issue("off-trailing-data", body[nv + nf])
    edges = set()
    for f in out.faces:
        for a, b in zip(f, f[1:] + f[:1]):
            edges.add((min(a, b), max(a, b)))
    if ne != len(edges):
        out.issue("off-count-mismatch", "declared %d edges, mesh has %d" % (ne, len(edges)))
    _range_check(out, "off")
    return out


# ------------------------------------------------------------------ PLY
_PLY_TYPES = {"char", "uchar", "short", "ushort", "int", "uint", "float", "double",
              "int8", "uint8", "int16", "uint16", "int32", "uint32", "float32", "float64"}
_PLY_MAX = {"uchar": 255, "uint8": 255, "char": 127, "int8": 127, "ushort": 65535,
            "uint16": 65535, "short": 32767, "int16": 32767}


def parse_ply(data):
    out = Parsed()
    txt = _text(data, out, "ply")
    lines = txt.split("\n")
    if not lines or lines[0].strip() != "ply":
        out.issue("ply-missing-magic", lines[0] if lines else "")
    elements = []  # (name, count, [props])
    i = 1
    fmt_seen = False
    ended = False
    while i < len(lines):
        s = lines[i].strip()
        i += 1
        if s == "end_header":
            ended = True
            break
        tok = s.split()
        if not tok:
            out.issue("ply-blank-header-line")
            continue
        if tok[0] == "format":
            fmt_seen = True
            if tok[1:] != ["ascii", "1.0"]:
                out.issue("ply-format", s)
        elif tok[0] in ("comment", "obj_info"):
            continue
        elif tok[0] == "element":
            if len(tok) != 3 or not _INT.match(tok[2]):
                out.issue("ply-element-decl", s)
                continue
            elements.append((tok[1], int(tok[2]), []))
        elif tok[0] == "property":
            if not elements:
                out.issue("ply-property-before-element", s)
                continue
            if tok[1] == "list":
                if len(tok) != 5 or tok[2] not in _PLY_TYPES or tok[3] not in _PLY_TYPES:
                    out.issue("ply-property-decl", s)
                    continue
                elements[-1][2].append(("list", tok[2], tok[3], tok[4]))
            else:
                if len(tok) != 3 or tok[1] not in _PLY_TYPES:
                    out.issue("ply-property-decl", s)
                    continue
                elements[-1][2].append(("scalar", tok[1], tok[2]))
        else:
            out.issue("ply-unknown-header-line", s)
    if not ended:
        out.issue("ply-missing-end_header")
        return out
    if not fmt_seen:
        out.issue("ply-missing-format")
    body = [ln for ln in lines[i:]]
    # a trailing newline yields one empty string; empty lines inside are errors
    while body and body[-1].strip() == "":
        body.pop()
    pos = 0
    for name, count, props in elements:
        rows = body[pos:pos + count]
        if len(rows) != count:
            out.issue("ply-count-mismatch", "element %s declared %d rows, found %d" % (
                name, count, len(rows)))
        pos += count
        for s in rows:
            tok = s.split()
            vals = {}
            k = 0
            bad = False
            for p in props:
                if p[0] == "scalar":
                    if k >= len(tok):
                        bad = True
                        break
                    vals[p[2]] = tok[k]
                    k += 1
                else:
                    if k >= len(tok):
                        bad = True
                        break
                    n = _i(tok[k], out, "ply-list-count")
                    if n is None:
                        bad = True
                        break
                    if p[1] in _PLY_MAX and n > _PLY_MAX[p[1]]:
                        out.issue("ply-list-count-overflow", "%d for %s" % (n, p[1]))
                    vals[p[3]] = tok[k + 1:k + 1 + n]
                    if len(vals[p[3]]) != n:
                        bad = True
                    k += 1 + n
            if bad or k != len(tok):
                out.issue("ply-row-arity", "%s: %s" % (name, s))
                continue
            if name == "vertex":
                if not all(c in vals for c in "xyz"):
                    out.issue("ply-vertex-missing-xyz")
                    continue
                xyz = [_f(vals[c], out, "ply-vertex") for c in "xyz"]
                if None not in xyz:
                    out.verts.append(tuple(xyz))
            elif name == "face":
                key = "vertex_indices" if "vertex_indices" in vals else (
                    "vertex_index" if "vertex_index" in vals else None)
                if key is None:
                    out.issue("ply-face-missing-indices")
                    continue
                idx = [_i(t, out, "ply-face-index") for t in vals[key]]
                if None not in idx:
                    if any(j < 0 for j in idx):
                        out.issue("ply-face-index-negative", s)
                    out.faces.append(idx)
    if pos < len(body):
        out.issue("ply-trailing-data", body[pos])
    decl = {n: c for n, c, _ in elements}
    if decl.get("vertex") != len(out.verts):
        out.issue("ply-count-mismatch", "vertex declared %s parsed %d" % (
            decl.get("vertex"), len(out.verts)))
    if decl.get("face") != len(out.faces):
        out.issue("ply-count-mismatch", "face declared %s parsed %d" % (
            decl.get("face"), len(out.faces)))
    _range_check(out, "ply")
    return out


# ------------------------------------------------------------------ VTK
def parse_vtk(data):
    out = Parsed()
    try:
        txt = data.decode("ascii")
    except UnicodeDecodeError as e:
        out.issue("vtk-not-ascii", e)
        txt = data.decode("ascii", "replace")
    lines = txt.split("\n")
    if len(lines) < 4:
        out.issue("vtk-truncated-header")
        return out
    if not re.match(r"^# vtk DataFile Version \d+\.\d+\s*$", lines[0]):
        out.issue("vtk-bad-magic", lines[0])
    if len(lines[1]) > 256:
        out.issue("vtk-title-too-long")
    if lines[2].strip() != "ASCII":
        out.issue("vtk-not-ascii-mode", lines[2])
    toks = " ".join(lines[3:]).split()
    p = 0

    def need(word):
        nonlocal p
        if p < len(toks) and toks[p].upper() == word:
            p += 1
            return True
        out.issue("vtk-expected-" + word.lower(), toks[p] if p < len(toks) else "<eof>")
        return False

    if not (need("DATASET") and need("POLYDATA")):
        return out
    if not need("POINTS"):
        return out
    n = _i(toks[p], out, "vtk-points-count") if p < len(toks) else None
    p += 1
    if p < len(toks) and toks[p] in ("float", "double"):
        p += 1
    else:
        out.issue("vtk-points-type", toks[p] if p < len(toks) else "<eof>")
    if n is None:
        return out
    nums = toks[p:p + 3 * n]
    if len(nums) != 3 * n:
        out.issue("vtk-count-mismatch", "POINTS %d but %d numbers" % (n, len(nums)))
    for k in range(0, len(nums) - len(nums) % 3, 3):
        if nums[k].upper() in ("POLYGONS", "VERTICES", "LINES"):
            out.issue("vtk-count-mismatch", "POINTS %d: ran into %s" % (n, nums[k]))
            break
        xyz = [_f(t, out, "vtk-point") for t in nums[k:k + 3]]
        if None not in xyz:
            out.verts.append(tuple(xyz))
    p += 3 * n
    if not need("POLYGONS"):
        return out
    m = _i(toks[p], out, "vtk-polygons-count") if p < len(toks) else None
    size = _i(toks[p + 1], out, "vtk-polygons-size") if p + 1 < len(toks) else None
    p += 2
    if m is None or size is None:
        out.issue("vtk-polygons-header")
        return out
    cells = toks[p:p + size]
    if len(cells) != size:
        out.issue("vtk-count-mismatch", "POLYGONS size %d but %d ints" % (size, len(cells)))
    q = 0
    while q < len(cells):
        k = _i(cells[q], out, "vtk-cell-count")
        if k is None:
            break
        idx = [_i(t, out, "vtk-cell-index") for t in cells[q + 1:q + 1 + k]]
        if len(idx) != k or None in idx:
            out.issue("vtk-cell-arity", cells[q:q + 1 + k])
            break
        out.faces.append(idx)
        q += 1 + k
    if len(out.faces) != m:
        out.issue("vtk-count-mismatch", "POLYGONS declared %d cells, parsed %d" % (
            m, len(out.faces)))
    if p + size < len(toks):
        out.issue("vtk-trailing-data", toks[p + size])
    if len(out.verts) != n:
        out.issue("vtk-count-mismatch", "POINTS declared %d parsed %d" % (n, len(out.verts)))
    _range_check(out, "vtk")
    return out


# ------------------------------------------------------------------ STL
def parse_stl(data):
    out = Parsed()
    txt = _text(data, out, "stl")
    toks = txt.split()
    p = 0

    def peek():
        return toks[p] if p < len(toks) else None

    if peek() != "solid":
        out.issue("stl-missing-solid", peek())
        return out
    # name = rest of the first line
    first_line = txt.split("\n", 1)[0].split()
    name = first_line[1:] if len(first_line) > 1 else []
    p = 1 + len(name)
    out.meta["name"] = " ".join(name)
    while p < len(toks):
        if toks[p] == "endsolid":
            rest = toks[p + 1:]
            if rest and rest != name:
                out.issue("stl-endsolid-name", " ".join(rest))
            p = len(toks)
            out.meta["closed"] = True
            break
        if toks[p:p + 2] != ["facet", "normal"]:
            out.issue("stl-expected-facet", toks[p])
            break
        nrm = [_f(t, out, "stl-normal") for t in toks[p + 2:p + 5]]
        p += 5
        if toks[p:p + 2] != ["outer", "loop"]:
            out.issue("stl-expected-outer-loop", peek())
            break
        p += 2
        corners = []
        while toks[p:p + 1] == ["vertex"]:
            xyz = [_f(t, out, "stl-vertex") for t in toks[p + 1:p + 4]]
            if len(xyz) != 3 or None in xyz:
                out.issue("stl-vertex-arity")
                break
            corners.append(tuple(xyz))
            p += 4
        if len(corners) != 3:
            out.issue("stl-loop-not-triangle", len(corners))
        if toks[p:p + 1] != ["endloop"]:
            out.issue("stl-expected-endloop", peek())
            break
        p += 1
        if toks[p:p + 1] != ["endfacet"]:
            out.issue("stl-expected-endfacet", peek())
            break
        p += 1
        if len(corners) == 3 and None not in nrm and len(nrm) == 3:
            out.tris.append((tuple(nrm), tuple(corners)))
    if not out.meta.get("closed"):
        out.issue("stl-missing-endsolid")
    return out


# ------------------------------------------------------------------ X3D / HTML
class _Node:
    __slots__ = ("name", "attrs", "children", "text")

    def __init__(self, name, attrs):
        self.name = name
        self.attrs = attrs
        self.children = []
        self.text = ""


def _xml_tree(data, out, fmt):
    p = expat.ParserCreate()
    root = []
    stack = []

    def start(name, attrs):
        node = _Node(name, attrs)
        if stack:
            stack[-1].children.append(node)
        else:
            root.append(node)
        stack.append(node)

    def end(name):
        stack.pop()

    def chars(s):
        if stack:
            stack[-1].text += s

    p.StartElementHandler = start
    p.EndElementHandler = end
    p.CharacterDataHandler = chars
    try:
        p.Parse(data, True)
    except expat.ExpatError as e:
        out.issue(fmt + "-not-wellformed-xml", e)
        return None
    return root[0] if root else None


def _find(node, lname):
    """Depth-first search for elements by case-insensitive local name."""
    res = []
    if node.name.split(":")[-1].lower() == lname:
        res.append(node)
    for c in node.children:
        res.extend(_find(c, lname))
    return res


def _mf_numbers(s):
    return [t for t in re.split(r"[\s,]+", s.strip()) if t]


def _x3d_geometry(x3d_root, out, fmt):
    if x3d_root.name.lower() != "x3d":
        out.issue(fmt + "-root-not-x3d", x3d_root.name)
    scenes = _find(x3d_root, "scene")
    if len(scenes) != 1:
        out.issue(fmt + "-scene-count", len(scenes))
    ifs = _find(x3d_root, "indexedfaceset")
    if len(ifs) != 1:
        out.issue(fmt + "-indexedfaceset-count", len(ifs))
        if not ifs:
            return
    ifs = ifs[0]
    shapes = _find(x3d_root, "shape")
    if not any(ifs in s.children for s in shapes):
        out.issue(fmt + "-faceset-not-in-shape")
    attrs = {k.lower(): v for k, v in ifs.attrs.items()}
    if "coordindex" not in attrs:
        out.issue(fmt + "-missing-coordIndex")
        return
    coords = [c for c in ifs.children if c.name.lower() == "coordinate"]
    if len(coords) != 1:
        out.issue(fmt + "-coordinate-count", len(coords))
        if not coords:
            return
    cattrs = {k.lower(): v for k, v in coords[0].attrs.items()}
    if "point" not in cattrs:
        out.issue(fmt + "-missing-point")
        return
    nums = _mf_numbers(cattrs["point"])
    if len(nums) % 3:
        out.issue(fmt + "-point-not-multiple-of-3", len(nums))
    for k in range(0, len(nums) - len(nums) % 3, 3):
        xyz = [_f(t, out, fmt + "-point") for t in nums[k:k + 3]]
        if None not in xyz:
            out.verts.append(tuple(xyz))
    idx = [_i(t, out, fmt + "-coordIndex") for t in _mf_numbers(attrs["coordindex"])]
    cur = []
    for k in idx:
        if k is None:
            continue
        if k == -1:
            if len(cur) < 3:
                out.issue(fmt + "-face-too-short", cur)
            out.faces.append(cur)
            cur = []
        elif k < -1:
            out.issue(fmt + "-coordIndex-negative", k)
        else:
            cur.append(k)
    if cur:
        out.faces.append(cur)  # final -1 is optional in X3D
    _range_check(out, fmt)


def parse_x3d(data):
    out = Parsed()
    root = _xml_tree(data, out, "x3d")
    if root is None:
        return out
    _x3d_geometry(root, out, "x3d")
    return out


def parse_html(data):
    out = Parsed()
    txt = _text(data, out, "html")
    if not txt.lstrip().lower().startswith("<!doctype html>"):
        out.issue("html-missing-doctype", txt[:40])
    root = _xml_tree(data, out, "html")
    if root is None:
        return out
    if root.name.lower() != "html":
        out.issue("html-root-not-html", root.name)
    if not _find(root, "body"):
        out.issue("html-missing-body")
    scripts = [s for s in _find(root, "script") if "x3dom" in s.attrs.get("src", "")]
    if not scripts:
        out.issue("html-missing-x3dom-script")
    x3d = None
    for b in _find(root, "body"):
        got = _find(b, "x3d")
        if got:
            x3d = got[0]
    if x3d is None:
        out.issue("html-missing-x3d-in-body")
        return out
    _x3d_geometry(x3d, out, "html")
    return out


PARSERS = {"OBJ": parse_obj, "OFF": parse_off, "PLY": parse_ply, "VTK": parse_vtk,
           "STL": parse_stl, "X3D": parse_x3d, "HTML": parse_html}
