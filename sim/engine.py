"""Run engine: seed -> run spec -> execution -> verdict; worker pool; aggregation.

A *machine* (sim/machines/<id>.py) provides

    PROP                      property id
    TIERS                     {"quick": {...}, "thorough": {...}} budgets
    gen_spec(seed, index, tier) -> JSON-able run spec (explicit data)
    execute(spec, world)      -> dict(violations=[...], counters=Counter,
                                      sets={name: set}, nontrivial=bool)
    simplify(spec)            -> iterator of simpler candidate specs (optional)
    sample(spec)              -> short JSON-able description for the evidence

Execution is a pure function of the spec and of the code under test; the spec
is the replay file.
"""

import hashlib
import json
import multiprocessing
import os
import shutil
import signal
import sys
import tempfile
import time
import traceback
from collections import Counter
import atexit
from concurrent.futures import FIRST_COMPLETED, ProcessPoolExecutor, wait

from . import rng as _rng
from .seams import World

REPO = os.environ.get("COXETER_VERIF_SRC", "/repo")


class HarnessTimeout(Exception):
    pass


def _alarm(signum, frame):
    raise HarnessTimeout()


def canonical(obj):
    return json.dumps(obj, sort_keys=True, separators=(",", ":"), default=repr)


def sig_hash(sig):
    return hashlib.sha256(canonical(sig).encode()).hexdigest()[:12]


def violation(prop_id, rule, detail="", step=None, **sig):
    s = {"property": prop_id, "rule": rule}
    s.update({k: v for k, v in sig.items() if v is not None})
    return {"sig": s, "hash": sig_hash(s), "detail": str(detail)[:600], "step": step}


def raise_site(exc):
    """Innermost coxeter frame of an exception: 'file.py:function'."""
    tb = exc.__traceback__
    site = None
    while tb is not None:
        fn = tb.tb_frame.f_code.co_filename
        if os.sep + "coxeter" + os.sep in fn:
            site = "%s:%s" % (os.path.basename(fn), tb.tb_frame.f_code.co_name)
        tb = tb.tb_next
    return site


def load_machine(prop):
    import importlib

    return importlib.import_module("sim.machines." + prop.lower())


_SANDBOX = None


def sandbox_dir():
    """Private scratch directory of this process (cwd of the worker)."""
    global _SANDBOX
    base = os.environ.get("COXETER_VERIF_SANDBOX")
    if _SANDBOX is None or not os.path.isdir(_SANDBOX) or not _SANDBOX.endswith(str(os.getpid())):
        if base is None:
            base = tempfile.mkdtemp(prefix="cxv-")
            os.environ["COXETER_VERIF_SANDBOX"] = base
            atexit.register(shutil.rmtree, base, True)
        _SANDBOX = os.path.join(base, "w%d" % os.getpid())
        os.makedirs(_SANDBOX, exist_ok=True)
    return _SANDBOX


def run_one(machine, spec, keep_events=False, cap_s=None):
    """Execute one run spec. Returns a JSON-able result dict."""
    sb = sandbox_dir()
    old_cwd = os.getcwd()
    os.chdir(sb)
    world = World(sb, keep_events=True)
    res = {"violations": [], "counters": Counter(), "sets": {}, "nontrivial": False,
           "harness": None}
    cap = cap_s or machine.TIERS.get("run_cap_s", 120)
    old = signal.signal(signal.SIGALRM, _alarm)
    signal.setitimer(signal.ITIMER_REAL, cap)
    try:
        out = machine.execute(spec, world)
        res.update(out)
    except HarnessTimeout:
        res["harness"] = "timeout"
    except Exception:
        res["harness"] = "error: " + traceback.format_exc()[-1500:]
    finally:
        signal.setitimer(signal.ITIMER_REAL, 0)
        signal.signal(signal.SIGALRM, old)
        os.chdir(old_cwd)
        # never leave stray real files between runs
        for name in os.listdir(sb):
            p = os.path.join(sb, name)
            try:
                shutil.rmtree(p) if os.path.isdir(p) else os.remove(p)
            except OSError:
                pass
    res["counters"] = Counter(res["counters"])
    res["counters"].update(world.faults_fired())
    res["counters"]["clock_reads_by_sut"] += world.clock.reads
    res["counters"]["events"] += world.log.seq
    h = hashlib.sha256()
    h.update(canonical(world.log.events).encode())
    h.update(canonical([v["sig"] for v in res["violations"]]).encode())
    res["digest"] = h.hexdigest()[:16]
    if keep_events:
        res["events"] = world.log.events
    return res


def run_seed(seed, prop, index):
    return _rng.derive(seed, prop, index)


def _worker(args):
    prop, tier, seed, indices, deadline = args
    machine = load_machine(prop)
    agg = new_agg()
    for i in indices:
        if deadline is not None and time.time() > deadline:
            break
        spec = machine.gen_spec(run_seed(seed, prop, i), i, tier)
        res = run_one(machine, spec)
        fold(agg, machine, spec, res, i)
    agg["sets"] = {k: sorted(v) for k, v in agg["sets"].items()}
    agg["digests_nontrivial"] = sorted(agg["digests_nontrivial"])
    return agg


def new_agg():
    return {"runs": 0, "counters": Counter(), "sets": {}, "digests_nontrivial": set(),
            "violations": {}, "harness": [], "samples": [], "first": None, "last": None}


def fold(agg, machine, spec, res, index):
    agg["runs"] += 1
    agg["counters"].update(res["counters"])
    for k, v in res["sets"].items():
        agg["sets"].setdefault(k, set()).update(v)
    if res["nontrivial"]:
        agg["digests_nontrivial"].add(res["digest"])
    if res["harness"]:
        agg["harness"].append({"index": index, "what": res["harness"], "spec": spec})
    for v in res["violations"]:
        slot = agg["violations"].setdefault(v["hash"], {"sig": v["sig"], "count": 0,
                                                        "example": None})
        slot["count"] += 1
        size = len(spec.get("steps", []))
        if slot["example"] is None or size < slot["example"]["size"]:
            slot["example"] = {"size": size, "index": index, "spec": spec,
                               "detail": v["detail"], "digest": res["digest"]}
    if len(agg["samples"]) < 2 and res["nontrivial"]:
        agg["samples"].append(machine.sample(spec))
    agg["first"] = index if agg["first"] is None else min(agg["first"], index)
    agg["last"] = index if agg["last"] is None else max(agg["last"], index)


def merge(total, part):
    total["runs"] += part["runs"]
    total["counters"].update(part["counters"])
    for k, v in part["sets"].items():
        total["sets"].setdefault(k, set()).update(v)
    total["digests_nontrivial"].update(part["digests_nontrivial"])
    total["harness"].extend(part["harness"])
    for h, slot in part["violations"].items():
        cur = total["violations"].get(h)
        if cur is None:
            total["violations"][h] = slot
        else:
            cur["count"] += slot["count"]
            if slot["example"]["size"] < cur["example"]["size"] or (
                    slot["example"]["size"] == cur["example"]["size"]
                    and slot["example"]["index"] < cur["example"]["index"]):
                cur["example"] = slot["example"]
    for s in part["samples"]:
        if len(total["samples"]) < 3:
            total["samples"].append(s)
    for key, fn in (("first", min), ("last", max)):
        if part[key] is not None:
            total[key] = part[key] if total[key] is None else fn(total[key], part[key])


def explore(prop, tier, seed, workers=None, n_runs=None, budget_s=None, start_index=0):
    """Seeded search over run indices; returns the merged aggregate."""
    machine = load_machine(prop)
    cfg = machine.TIERS[tier]
    workers = workers or int(os.environ.get("VERIF_WORKERS", "0")) or min(16, os.cpu_count() or 1)
    if n_runs is None and budget_s is None:
        n_runs = cfg.get("runs")
        budget_s = cfg.get("budget_s")
    if os.environ.get("VERIF_BUDGET_S") and tier == "thorough":
        budget_s = float(os.environ["VERIF_BUDGET_S"])
        n_runs = None
    if os.environ.get("VERIF_RUNS"):
        n_runs = int(os.environ["VERIF_RUNS"])
    chunk = cfg.get("chunk", 8)
    total = new_agg()
    t0 = time.time()
    deadline = (t0 + budget_s) if (budget_s and not n_runs) else None
    hard_deadline = t0 + cfg.get("hard_wall_s", 3600 * 6)
    outer = os.environ.get("COXETER_VERIF_SANDBOX")
    base = outer or tempfile.mkdtemp(prefix="cxv-")
    os.environ["COXETER_VERIF_SANDBOX"] = base
    ctx = multiprocessing.get_context("fork")
    try:
        with ProcessPoolExecutor(max_workers=workers, mp_context=ctx) as pool:
            pending = set()
            next_index = start_index
            end_index = start_index + n_runs if n_runs else None

            def submit():
                nonlocal next_index
                if end_index is not None and next_index >= end_index:
                    return False
                if deadline is not None and time.time() > deadline:
                    return False
                hi = next_index + chunk
                if end_index is not None:
                    hi = min(hi, end_index)
                idx = list(range(next_index, hi))
                next_index = hi
                pending.add(pool.submit(_worker, (prop, tier, seed, idx, None)))
                return True

            for _ in range(workers * 2):
                if not submit():
                    break
            while pending:
                done, _ = wait(pending, return_when=FIRST_COMPLETED)
                for fut in done:
                    pending.discard(fut)
                    merge(total, fut.result())
                    if time.time() < hard_deadline:
                        submit()
    finally:
        if not outer:
            shutil.rmtree(base, ignore_errors=True)
            os.environ.pop("COXETER_VERIF_SANDBOX", None)
        global _SANDBOX
        _SANDBOX = None
    total["wall_s"] = time.time() - t0
    total["workers"] = workers
    return machine, total


# --------------------------------------------------------------------------
# per-run digests (determinism self-test)
# --------------------------------------------------------------------------
def _digest_worker(args):
    prop, tier, seed, indices = args
    machine = load_machine(prop)
    out = []
    for i in indices:
        spec = machine.gen_spec(run_seed(seed, prop, i), i, tier)
        sh = hashlib.sha256(canonical(spec).encode()).hexdigest()[:16]
        res = run_one(machine, spec)
        out.append([i, sh, res["digest"], res["harness"] and res["harness"][:40]])
    return out


def digests(prop, tier, seed, start, count, workers):
    """[index, spec hash, event-log digest, harness] for a range of run indices."""
    idx = list(range(start, start + count))
    if workers <= 1:
        return _digest_worker((prop, tier, seed, idx))
    chunks = [idx[k::workers] for k in range(workers)]
    base = tempfile.mkdtemp(prefix="cxv-")
    os.environ["COXETER_VERIF_SANDBOX"] = base
    ctx = multiprocessing.get_context("fork")
    out = []
    try:
        with ProcessPoolExecutor(max_workers=workers, mp_context=ctx) as pool:
            for part in pool.map(_digest_worker, [(prop, tier, seed, c) for c in chunks]):
                out.extend(part)
    finally:
        shutil.rmtree(base, ignore_errors=True)
        os.environ.pop("COXETER_VERIF_SANDBOX", None)
    return sorted(out)
