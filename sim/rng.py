"""Labelled deterministic random streams.

One integer (VERIF_SEED) decides everything: every stream is a
``random.Random`` instance (Mersenne Twister, bit-stable across CPython
versions and platforms) seeded with an integer derived by SHA-256 from the
parent seed and a textual label.  Python's ``hash()`` is never used, so
PYTHONHASHSEED does not matter, and the *global* ``random`` module state is
never touched here (the simulator hands that one to the system under test).
"""

import hashlib
import math
import random


def derive(seed, *labels):
    """64-bit integer derived from ``seed`` and labels (stable, no hash())."""
    h = hashlib.sha256()
    h.update(str(int(seed)).encode())
    for lab in labels:
        h.update(b"\x00")
        h.update(str(lab).encode())
    return int.from_bytes(h.digest()[:8], "big")


class Stream(random.Random):
    """A ``random.Random`` with a few conveniences and cheap sub-streams."""

    def __init__(self, seed, *labels):
        self._seed_int = derive(seed, *labels) if labels else int(seed)
        super().__init__(self._seed_int)

    def sub(self, *labels):
        return Stream(self._seed_int, *labels)

    def u32(self):
        return self.getrandbits(32)

    def chance(self, p):
        return self.random() < p

    def log_uniform(self, lo, hi):
        return math.exp(self.uniform(math.log(lo), math.log(hi)))

    def unit_vector(self, dim=3):
        while True:
            v = [self.gauss(0.0, 1.0) for _ in range(dim)]
            n = math.sqrt(sum(x * x for x in v))
            if n > 1e-6:
                return [x / n for x in v]

    def weighted(self, pairs):
        """pairs: list of (item, weight)."""
        total = sum(w for _, w in pairs)
        x = self.random() * total
        acc = 0.0
        for item, w in pairs:
            acc += w
            if x < acc:
                return item
        return pairs[-1][0]
