"""C03 - mutable shapes stay coherent under any history of mutations.

System: one live object of each vertex-based class.  Operations: every
settable property (by reflection) with a valid target, diagonalize_inertia,
merge_faces(atol, rtol), sort_faces, to_hoomd, and the same through the exposed
inner polygon/polyhedron of the spheropolytopes.  Faults: operations the state
makes unsatisfiable, malformed arguments, solver faults inside the
minimal_bounding_*_radius setters.  Reference model: fresh construction.
"""

import copy
from collections import Counter

import numpy as np

from .. import gen, history, observe
from ..engine import raise_site, violation
from ..rng import Stream
from .c13 import certificate

PROP = "C03"
CLASSES = ["ConvexPolyhedron", "Polyhedron", "ConvexSpheropolyhedron", "Polygon",
           "ConvexPolygon", "ConvexSpheropolygon"]
TIERS = {
    "quick": {"runs": 3600, "chunk": 6, "shrink_cap_s": 60, "max_minimised": 10},
    "thorough": {"budget_s": 1200, "chunk": 6, "shrink_cap_s": 180, "max_minimised": 20},
    "run_cap_s": 180,
}
RULE = ("One run = one live object of a vertex-based class (six classes; regular, chiral, "
        "prismatic, generic, triangulated, non-convex and face-scrambled bases; random rigid "
        "placement, offset 0/1/10 diameters, scale 1e-2..1e2) driven through 1-12 mutating "
        "operations drawn from the reflected alphabet (settable properties with valid targets "
        "as factors of the current value, diagonalize_inertia, merge_faces with randomised "
        "tolerances, sort_faces, to_hoomd, inner-object mutations), with refused operations "
        "(unsatisfiable in the state, malformed points) and solver faults in the miniball-based "
        "setters as injected faults. Stratified prefix: run index i < 6*|alphabet| fixes the "
        "first operation (quick) and i < 6*|alphabet|^2 the first two, then every ordered triple "
        "(thorough, as far as the budget reaches; a tenth of the thorough runs are long walks of "
        "13-36 operations). After every "
        "step the object is compared observable by observable with a freshly constructed shape. "
        "Non-trivial = at least one step changed the geometry or was refused; distinct = distinct "
        "sha256 digests of the event log.")
ASSUMPTIONS = [
    "Reference model = coxeter's own constructor on the current vertices (and faces, normal, "
    "radius): decides coherence, not whether the shared formulas are right (C01/C02/C04).",
    "Equivalence: metric quantities rtol 1e-6 of the array max-norm plus 1e-9*L^k; faces of the "
    "convex classes as cycles modulo rotation and face permutation; simplices by validity; "
    "is_inside only on probe points whose classification is stable under +-1e-6*extent.",
    "Faults are refusals the code itself declares (RuntimeError, ValueError, "
    "NotImplementedError, AttributeError, AssertionError on malformed points) and LinAlgError "
    "from the solver seam; exceptions at arbitrary lines are not injected.",
    "merge_faces tolerances stay within atol<=1e-6, rtol<=1e-4 so that only genuinely coplanar "
    "faces merge.",
    "Hostile caller: an ndarray passed to a setter is overwritten by the caller right after the "
    "call; a shape that kept a reference instead of a copy then disagrees with the fresh model.",
]


def alphabet(cls_name):
    """Static operation alphabet of a class (reflection on the class object)."""
    import coxeter.shapes as S

    cls = getattr(S, cls_name)
    props, settable, methods = observe.members(cls)
    ops = [("set", p, False) for p in settable]
    ops += [("call", m, False) for m in methods if m in observe.MUTATOR_METHODS or m == "to_hoomd"]
    inner = {"ConvexSpheropolyhedron": "ConvexPolyhedron",
             "ConvexSpheropolygon": "ConvexPolygon"}.get(cls_name)
    if inner:
        ip, isett, im = observe.members(getattr(S, inner))
        ops += [("set", p, True) for p in isett]
        ops += [("call", m, True) for m in im if m in observe.MUTATOR_METHODS or m == "to_hoomd"]
    return ops


def _force(rng, st, forced):
    kind, name, inner = forced
    st = dict(st)
    st["op"] = kind
    st["inner"] = inner
    for k in ("prop", "arg", "name", "kwargs", "solver_script"):
        st.pop(k, None)
    if kind == "call":
        st["name"] = name
        st["kwargs"] = {}
    else:
        st["prop"] = name
        if name in history.POINT_PROPS:
            st["arg"] = {"kind": "point", "d": [rng.uniform(-2, 2) for _ in range(3)],
                         "as": "array"}
        else:
            st["arg"] = {"kind": "factor", "f": 10 ** rng.uniform(-0.7, 0.7)}
    return st


def gen_spec(seed, index, tier):
    rng = Stream(seed, "c03")
    cls = CLASSES[index % len(CLASSES)]
    shape_rng = rng.sub("shape")
    base = None
    obj = None
    for _ in range(30):
        lo = -0.3 if cls == "Polyhedron" else -1.5
        sc = 10 ** shape_rng.uniform(lo, 1.6)
        if cls in ("ConvexPolyhedron", "ConvexSpheropolyhedron") and shape_rng.chance(0.12):
            # the hull-based classes use no vendored helper with absolute tolerances:
            # some runs live at very small sizes
            sc = 10 ** shape_rng.uniform(-8, -3)
        kw = {}
        if cls in ("ConvexPolyhedron", "ConvexSpheropolyhedron") and sc > 1e-2 and \
                shape_rng.chance(0.06):
            # almost axis-aligned: hull facets coplanar only to ~1e-8, which the constructor
            # does not merge (merge_faces then has real work to do on a convex class)
            kw = {"rotate": False, "noise": 10 ** shape_rng.uniform(-10, -7.5)}
        cand = gen.gen_base(shape_rng, cls, allow_scramble=True,
                            allow_invalid_faces=shape_rng.chance(0.05), scale=sc, **kw)
        try:
            obj = gen.build(cand)
            base = cand
            break
        except Exception:  # noqa: BLE001 - constructor questions are not C03's
            continue
    ops = rng.sub("ops")
    spec = {"property": PROP, "index": index, "seed": seed, "base": base,
            "cfg": {"observe": ops.choice(["full", "full", "full", "sparse"]),
                    "sparse_pick": ops.u32(), "bystander": ops.chance(0.25)}}
    if base is None:
        spec["steps"] = []
        return spec
    n = ops.randint(1, 8 if tier == "quick" else 12)
    if tier == "thorough" and ops.chance(0.1):
        n = ops.randint(13, 36)  # long random walk
    tiny = history.extent(obj) < 5e-3
    steps = history.gen_steps(ops, obj, n, malformed_rate=0.06, bad_rate=0.06, factor_decades=1.0,
                              ext_range=((1e-9, 1e-2) if tiny else
                                         (0.3 if cls == "Polyhedron" else 1e-2, 300.0)))
    A = alphabet(cls)
    k = index // len(CLASSES)
    if tier == "quick" and k < len(A):
        steps[0] = _force(ops, steps[0], A[k])
    elif tier == "thorough" and k < len(A) * len(A):
        if len(steps) < 2:
            steps.append(dict(steps[0]))
        steps[0] = _force(ops, steps[0], A[k % len(A)])
        steps[1] = _force(ops, steps[1], A[k // len(A)])
    elif tier == "thorough" and k < len(A) ** 2 + len(A) ** 3:
        # after every ordered pair: every ordered triple of operations
        t = k - len(A) ** 2
        while len(steps) < 3:
            steps.append(dict(steps[0]))
        for pos in range(3):
            steps[pos] = _force(ops, steps[pos], A[t % len(A)])
            t //= len(A)
    if base.get("scrambled"):
        steps.insert(0, {"op": "call", "name": "sort_faces", "kwargs": {}, "inner": False,
                         "pyseed": ops.u32(), "npseed": ops.u32()})
    spec["steps"] = steps
    return spec


def sample(spec):
    b = spec.get("base") or {}
    return {"base": {k: b.get(k) for k in ("cls", "family", "scrambled", "radius") if k in b},
            "n_vertices": len(b.get("vertices", [])), "cfg": spec.get("cfg"),
            "steps": [_short_step(s) for s in spec["steps"]]}


def _short_step(s):
    return {k: s[k] for k in ("op", "prop", "name", "arg", "kwargs", "inner", "solver_script")
            if k in s and s[k] not in ({}, None, False)}


def op_name(st):
    n = ("set:" + st["prop"]) if st["op"] == "set" else ("call:" + st["name"])
    return ("inner." + n) if st.get("inner") else n


def _solver_skip(world, extra=()):
    """Solver-dependent observables are skipped when a raw answer is uncertified."""
    for a in list(world.solver.attempts) + list(extra):
        if a["outcome"] == "ok":
            c, r2 = a["raw"]
            if certificate(a["W"], c, np.sqrt(max(r2, 0.0))):
                return set(observe.SOLVER_PROPS)
        elif a["outcome"].startswith("dep_error"):
            return set(observe.SOLVER_PROPS)
    return set()


def take_snapshot(world, obj, probes, only=None, other=None):
    if other is not None:
        # a second, different live shape of the same class is read first: two objects must
        # not see each other's state (class-level caches, shared default containers)
        with world.step(7, 8, use_fs=False):
            observe.snapshot(other, None, only=only)
    with world.step(7, 7, use_fs=False):
        snap = observe.snapshot(obj, probes, only=only)
    return snap, _solver_skip(world)


def execute(spec, world):
    res = _execute(spec, world)
    if res["violations"] and spec.get("cfg", {}).get("observe") == "sparse":
        # a sparse-observation run found something at its final full check: re-run the
        # same history with full observation so that the violation is attributed to the
        # operation that introduced it (kept as is if it only shows under sparse reads)
        full = _execute(dict(spec, cfg=dict(spec["cfg"], observe="full")), world)
        res["counters"]["sparse_reruns"] += 1
        if full["violations"]:
            res["violations"] = full["violations"]
        else:
            for v in res["violations"]:
                v["sig"]["only_under_sparse_observation"] = True
                from ..engine import sig_hash
                v["hash"] = sig_hash(v["sig"])
    return res


def _execute(spec, world):
    res = {"violations": [], "counters": Counter(),
           "sets": {"bigrams": set(), "abstract_states": set(), "refusals": set(),
                    "ops": set()},
           "nontrivial": False}
    C = res["counters"]
    log = world.log
    base = spec.get("base")
    if base is None:
        C["base_unbuildable"] += 1
        return res
    with world.step(0, 0, use_fs=False):
        try:
            _kept = []
            obj = gen.build(base, keep=_kept)
            # hostile caller: the arrays handed to the constructor are the caller's, and the
            # caller overwrites them right away (the shape must own copies)
            for _a in _kept:
                if _a.dtype.kind == "f":
                    _a += 1.2345 * (1.0 + np.abs(_a))
        except Exception as e:  # noqa: BLE001
            C["base_unbuildable"] += 1
            log.add("base", "unbuildable", type(e).__name__)
            return res
    cls = type(obj).__name__
    tracked = {"faces_are_convex": base.get("faces_are_convex", True)}
    cycles = cls in ("ConvexPolyhedron", "ConvexSpheropolyhedron")
    sparse = spec.get("cfg", {}).get("observe") == "sparse"
    only = None
    if sparse:
        props, _, _ = observe.members(type(obj))
        pick = Stream(spec["cfg"].get("sparse_pick", 0), "sparse")
        names = [p for p in props if p not in observe.DEPRECATED] + \
            ["is_inside", "get_face_area", "get_dihedral", "form_factor", "repr"]
        only = {"vertices", "faces", "normal", "radius"} | set(
            pick.sample(names, min(4, len(names))))
    probes = observe.build_probes(obj.vertices)
    other = None
    if spec.get("cfg", {}).get("bystander"):
        with world.step(0, 1, use_fs=False):
            try:
                other = gen.build(gen.sibling(spec["base"]))
                C["runs_with_bystander"] += 1
            except Exception:  # noqa: BLE001
                other = None
    prev_snap, prev_skip = take_snapshot(world, obj, probes, only, other)
    prev_op = "^"
    nsteps = len(spec["steps"])
    for si, st in enumerate(spec["steps"]):
        C["steps"] += 1
        name = op_name(st)
        res["sets"]["ops"].add("%s:%s" % (cls, name))
        res["sets"]["bigrams"].add("%s:%s>%s" % (cls, prev_op, name))
        prev_op = name
        g_pre = history.geometry(obj)
        try:
            nf_pre = len((history.target_of(obj) or obj).faces)
        except Exception:  # noqa: BLE001
            nf_pre = None
        r = history.apply(obj, st, world, scribble=True)
        try:
            g_post = history.geometry(obj)
        except Exception as e:  # noqa: BLE001
            res["violations"].append(violation(
                PROP, "coherence", "geometry unreadable after %s: %s" % (name, e), si, cls=cls,
                op=name, obs="vertices"))
            break
        moved = not _same_geometry(g_pre, g_post)
        nfail = sum(1 for a in world.solver.attempts if a["outcome"] in ("injected", "natural"))
        log.add("step", si, name, r["outcome"], type(r["exc"]).__name__ if r["exc"] else None,
                "moved" if moved else "same", nfail)
        if moved or r["outcome"] == "raised":
            res["nontrivial"] = True
        C["ops_ok" if r["outcome"] == "ok" else "ops_refused"] += 1
        if moved:
            C["ops_that_changed_geometry"] += 1

        # structural invariant (never excused by the conditioning guard): one plane equation
        # and one neighbour list per face, whatever the geometry looks like
        try:
            core = history.target_of(obj) or obj
            if hasattr(type(core), "equations") and hasattr(type(core), "faces"):
                nf, ne = len(core.faces), len(core.equations)
                nn = len(core.neighbors) if hasattr(type(core), "neighbors") else nf
                if nf == ne == nn and hasattr(type(core), "edges"):
                    # ... and the edge list is the set of edges of the faces
                    want = set()
                    for f in core.faces:
                        f = [int(i) for i in f]
                        for a_, b_ in zip(f, f[1:] + f[:1]):
                            want.add((min(a_, b_), max(a_, b_)))
                    have = {(min(int(a_), int(b_)), max(int(a_), int(b_)))
                            for a_, b_ in np.asarray(core.edges)}
                    if have != want or int(core.num_edges) != len(want):
                        res["violations"].append(violation(
                            PROP, "structure", "after %s (%s): the edge list has %d edges, the "
                            "faces have %d" % (name, r["outcome"], len(have), len(want)), si,
                            cls=cls, op=name, what="edges-are-not-the-edges-of-the-faces"))
                        break
                if not (nf == ne == nn):
                    res["violations"].append(violation(
                        PROP, "structure", "after %s (%s): %d faces, %d plane equations, %d "
                        "neighbour lists" % (name, r["outcome"], nf, ne, nn), si, cls=cls,
                        op=name, what="faces-equations-neighbours-lengths-differ"))
                    break
        except Exception as e:  # noqa: BLE001
            if type(e).__name__ == "HarnessTimeout":
                raise

        try:
            nf_post = len((history.target_of(obj) or obj).faces)
        except Exception:  # noqa: BLE001
            nf_post = None
        if cycles and r["outcome"] == "ok" and st.get("name") == "merge_faces" and \
                nf_pre != nf_post:
            # merge_faces(atol, rtol) merged hull facets that the constructor's own (much
            # tighter) tolerance keeps apart: from here on a freshly constructed hull is no
            # reference for the face structure.  The structural invariant above was judged;
            # the history is not continued.
            C["convex_merge_coarser_than_constructor"] += 1
            break

        if r["outcome"] == "ok" and (st.get("arg") or {}).get("kind") == "bad" and not (
                st.get("prop") == "radius" and st["arg"].get("bad") == "zero"):
            # an invalid size target (0, negative, nan) was accepted: whether that is
            # allowed is C08's question; the history is not continued from such a state
            C["bad_target_accepted_not_judged_here"] += 1
            break
        if r["outcome"] == "raised":
            exc = r["exc"]
            res["sets"]["refusals"].add("%s:%s:%s" % (cls, name, type(exc).__name__))
            C["fault.refused_operation." + type(exc).__name__] += 1
            # an operation that raises leaves the shape as it was
            snap_after, skip2 = take_snapshot(world, obj, probes, only)
            d = observe.diff_unchanged(prev_snap, snap_after, nbase=probes["n_base"],
                                       skip=prev_skip | skip2)
            if d:
                res["violations"].append(violation(
                    PROP, "failure_atomicity", "%s raised %s (%s) but %s changed: %s" % (
                        name, type(exc).__name__, str(exc)[:80], d[0][0], d[0][1]), si,
                    cls=cls, op=name, exc=type(exc).__name__, obs=d[0][0]))
                break
            continue

        if st["op"] == "call" and st["name"] == "diagonalize_inertia" and "vertices" in g_pre:
            R, det, rms = gen.kabsch(g_pre["vertices"], g_post["vertices"])
            L = float(np.max(np.abs(g_pre["vertices"]))) or 1.0
            if rms > 1e-8 * L:
                res["violations"].append(violation(
                    PROP, "not_rigid", "diagonalize_inertia is not a rigid motion (rms %.3g)" %
                    rms, si, cls=cls, op=name))
                break
            if det < 0:
                res["violations"].append(violation(
                    PROP, "mirrored", "diagonalize_inertia applied an improper rotation "
                    "(det = %.3f): the shape is mirrored" % det, si, cls=cls, op=name))
                break
            C["reorientations_proper"] += 1

        # coherence with a freshly constructed shape
        try:
            with world.step(0, 0, use_fs=False):
                fr = history.fresh(obj, tracked)
        except Exception as e:  # noqa: BLE001
            C["model_unavailable"] += 1
            log.add("model_unavailable", si, type(e).__name__)
            # without a model only the geometry's sanity can be judged
            if not _finite(g_post):
                res["violations"].append(violation(
                    PROP, "coherence", "geometry non-finite after %s" % name, si, cls=cls,
                    op=name, obs="vertices"))
                break
            probes = observe.build_probes(obj.vertices)
            prev_snap, prev_skip = take_snapshot(world, obj, probes, only)
            continue
        probes = observe.build_probes(obj.vertices)
        last = si == nsteps - 1
        use_only = None if last else only
        snap_obj, skip_a = take_snapshot(world, obj, probes, use_only, other)
        snap_fr, skip_b = take_snapshot(world, fr, probes, use_only)
        d = observe.diff_equiv(snap_obj, snap_fr, nbase=probes["n_base"], faces_as_cycles=cycles,
                               skip=skip_a | skip_b)
        d = [x for x in d if not _borderline(x, obj, C)]
        if d:
            d = _conditioning_filter(world, obj, tracked, probes, use_only, cycles, snap_fr, d, C)
        if d:
            res["violations"].append(violation(
                PROP, "coherence", "after %s, %s differs from a freshly constructed %s: %s" % (
                    name, d[0][0], cls, d[0][1]), si, cls=cls, op=name, obs=d[0][0]))
            break
        core = history.target_of(obj) if cls.startswith("ConvexSphero") else obj
        if type(core).__name__ == "ConvexPolyhedron":
            why = history.check_simplices(core)
            if why:
                res["violations"].append(violation(
                    PROP, "coherence", "after %s: %s" % (name, why), si, cls=cls, op=name,
                    obs="simplices"))
                break
        C["coherence_checks"] += 1
        res["sets"]["abstract_states"].add(_abstract(cls, obj, g_post))
        if use_only is None and only is not None:
            prev_snap, prev_skip = take_snapshot(world, obj, probes, only)
        else:
            prev_snap, prev_skip = snap_obj, skip_a
    return res


def _conditioning_filter(world, obj, tracked, probes, only, cycles, snap_fr, d, C):
    """Drop differences on observables that two reference models built from
    last-bit-perturbed copies of the same geometry do not agree on themselves."""
    try:
        with world.step(0, 0, use_fs=False):
            fr2 = history.jittered(obj, tracked)
        snap2, _ = take_snapshot(world, fr2, probes, only)
    except Exception:  # noqa: BLE001 - the perturbed model is itself borderline
        C["conditioning_model_unavailable"] += 1
        return d
    unstable = {n.split(".")[0] for n, _ in observe.diff_equiv(
        snap_fr, snap2, nbase=probes["n_base"], faces_as_cycles=cycles)}
    kept = [x for x in d if x[0].split(".")[0] not in unstable]
    C["ill_conditioned_skips"] += len(d) - len(kept)
    return kept


def _finite(g):
    for k, v in g.items():
        if k == "faces":
            continue
        if not np.all(np.isfinite(np.asarray(v, float))):
            return False
    return True


def _same_geometry(a, b):
    if set(a) != set(b):
        return False
    for k in a:
        if k == "faces":
            if len(a[k]) != len(b[k]) or any(not np.array_equal(x, y)
                                             for x, y in zip(a[k], b[k])):
                return False
        elif not np.array_equal(np.asarray(a[k]), np.asarray(b[k])):
            return False
    return True


def _abstract(cls, obj, g):
    deg = ""
    if "faces" in g:
        deg = ",".join(str(x) for x in sorted(Counter(len(f) for f in g["faces"]).items()))
    v = g.get("vertices")
    ext = history.extent(obj)
    sb = int(np.floor(np.log10(ext))) if ext > 0 else 0
    off = float(np.linalg.norm(np.mean(v, axis=0))) / ext if v is not None else 0.0
    ob = 0 if off < 0.5 else 1 if off < 5 else 2
    rb = ""
    if "radius" in g:
        rr = g["radius"] / ext
        rb = "r0" if rr == 0 else "r1" if rr < 0.3 else "r2"
    return "%s|%s|s%d|o%d|%s" % (cls, deg, sb, ob, rb)


def _borderline(diff_item, obj, C):
    """Raise-vs-value mismatch on an 'exists / does not exist' observable whose
    own residual test is borderline is not judged (counted)."""
    name, why = diff_item
    leaf = name.split(".")[-1]
    if leaf in observe.EXISTENCE_PROPS and ("vs value" in why or "value vs" in why):
        C["borderline_skips"] += 1
        return True
    return False


# --------------------------------------------------------------------------
# shrinking help
# --------------------------------------------------------------------------
def simplify(spec):
    if spec.get("cfg", {}).get("observe") != "full":
        c = copy.deepcopy(spec)
        c["cfg"]["observe"] = "full"
        yield c
    for i, st in enumerate(spec["steps"]):
        arg = st.get("arg") or {}
        if arg.get("kind") == "factor" and arg.get("f") != 2.0:
            c = copy.deepcopy(spec)
            c["steps"][i]["arg"]["f"] = 2.0
            yield c
        if arg.get("kind") == "point" and arg.get("d") != [1.0, 0.0, 0.0]:
            c = copy.deepcopy(spec)
            c["steps"][i]["arg"] = {"kind": "point", "d": [1.0, 0.0, 0.0], "as": "list"}
            yield c
        if st.get("kwargs"):
            c = copy.deepcopy(spec)
            c["steps"][i]["kwargs"] = {}
            yield c
    b = spec["base"]
    cls = b["cls"]
    simple = None
    if cls in ("ConvexPolyhedron", "ConvexSpheropolyhedron", "Polyhedron") and \
            b.get("family") not in ("box@", "l_prism_split", "l_prism_nonconvex", "u_prism_split",
                                    "dented_octahedron") and not b.get("family", "").startswith(
                                        "tri:"):
        v = (np.array(gen.box(1.0, 1.5, 2.0)) + np.array([3.0, 2.0, 1.0]))
        simple = {"cls": cls, "family": "box@", "vertices": v.tolist()}
        if cls == "Polyhedron":
            simple["faces"] = gen.hull_faces(v)
            simple["faces_are_convex"] = True
        if cls == "ConvexSpheropolyhedron":
            simple["radius"] = 0.5 if b.get("radius") else 0.0
    if cls in ("Polygon", "ConvexPolygon", "ConvexSpheropolygon") and b.get("family") != "rect@":
        v = np.array([[2.0, 1, 0], [-2, 1, 0], [-2, -1, 0], [2, -1, 0]]) + np.array([3.0, 2.0, 0])
        simple = {"cls": cls, "family": "rect@", "vertices": v.tolist(), "normal": None}
        if cls == "ConvexSpheropolygon":
            simple["radius"] = 0.5 if b.get("radius") else 0.0
    if simple is not None:
        c = copy.deepcopy(spec)
        c["base"] = simple
        yield c
