"""C08 - size setters hit their target by pure similarity; bad targets are refused.

System: one live object of each of the ten shape classes.  Operations: every
settable property found by reflection, interleaved with other mutators so that
setters run in states with history.  Faults: invalid targets (0, negative,
nan), unreadable getters, solver faults in the miniball-based setters.
Reference model: the pre-state geometry G under a similarity.
"""

import copy
import warnings
from collections import Counter

import numpy as np

from .. import gen, history, observe
from ..engine import violation
from ..rng import Stream
from .c03 import _solver_skip, op_name

PROP = "C08"
CLASSES = ["ConvexPolyhedron", "Polyhedron", "ConvexSpheropolyhedron", "Polygon",
           "ConvexPolygon", "ConvexSpheropolygon", "Circle", "Ellipse", "Sphere", "Ellipsoid"]
TIERS = {
    "quick": {"runs": 16000, "chunk": 10, "shrink_cap_s": 60, "max_minimised": 10},
    "thorough": {"budget_s": 1200, "chunk": 10, "shrink_cap_s": 180, "max_minimised": 24},
    "run_cap_s": 180,
}
RULE = ("One run = one live object of one of the ten shape classes in general position, "
        "driven through 1-10 steps: assignments to every settable property found by reflection "
        "(valid targets as factors 1e-3..1e3 of the current value inside a size window; "
        "centroid/center := random point; rounding radius := 0) with ~20% invalid targets "
        "(0, negative, nan) as injected faults, interleaved with other mutators "
        "(diagonalize_inertia, merge_faces, sort_faces, to_hoomd, inner-object setters). "
        "Stratified prefix: run index i < 2*sum(|settable(cls)|) fixes (class, property, "
        "valid|invalid) of the first step. Non-trivial = at least one setter step was judged; "
        "distinct = distinct sha256 digests of the event log.")
ASSUMPTIONS = [
    "Similarity is judged on the defining geometry (vertices, rounding radius, semi-axes) "
    "centred at the vertex mean: where the scaling is centred is not judged.",
    "Read-back tolerance 1e-8 relative (1e-5 for the miniball-based radii whose solver "
    "tolerance is 1e-7); ground truth is the same property of a freshly constructed shape.",
    "For a single semi-axis (Ellipse.a/b, Ellipsoid.a/b/c) only read-back and 'other axes and "
    "centre untouched' are demanded.",
    "A setter whose getter raises in the current state may raise anything; the state must "
    "then be unchanged. Rounding radius := 0 is a valid assignment.",
]
DIMLESS = ("iq", "tau", "asphericity", "eccentricity", "normal")
AXES = ("a", "b", "c")


def settable_of(cls_name):
    import coxeter.shapes as S

    return observe.members(getattr(S, cls_name))[1]


def strat_table():
    t = []
    for cls in CLASSES:
        for p in settable_of(cls):
            t.append((cls, p, "valid"))
            t.append((cls, p, "bad"))
    return t


_STRAT = None


def gen_spec(seed, index, tier):
    global _STRAT
    if _STRAT is None:
        _STRAT = strat_table()
    rng = Stream(seed, "c08")
    forced = _STRAT[index] if index < len(_STRAT) else None
    cls = forced[0] if forced else CLASSES[index % len(CLASSES)]
    shape_rng = rng.sub("shape")
    base, obj = None, None
    for _ in range(30):
        lo = -0.3 if cls == "Polyhedron" else -1.5
        if cls in gen.CURVED:
            # closed-form classes have no tolerance window: a third of the runs go far out
            cand = gen.gen_base(shape_rng, cls, scale=10 ** (
                shape_rng.uniform(-9, 9) if shape_rng.chance(0.33) else shape_rng.uniform(-2, 2)))
        else:
            cand = gen.gen_base(shape_rng, cls, scale=10 ** shape_rng.uniform(lo, 1.6))
        try:
            obj = gen.build(cand)
            base = cand
            break
        except Exception:  # noqa: BLE001
            continue
    ops = rng.sub("ops")
    spec = {"property": PROP, "index": index, "seed": seed, "base": base}
    if base is None:
        spec["steps"] = []
        return spec
    n = ops.randint(1, 6 if tier == "quick" else 10)
    steps = history.gen_steps(ops, obj, n, bad_rate=0.2, malformed_rate=0.0, setter_bias=3.0,
                              factor_decades=ops.choice([1.0, 1.0, 3.0]),
                              ext_range=((1e-12, 1e12) if cls in gen.CURVED else
                                         (0.3 if cls == "Polyhedron" else 1e-2, 300.0)),
                              coord_max=1e14 if cls in gen.CURVED else 2500.0)
    if forced:
        _, prop, mode = forced
        st = {"op": "set", "prop": prop, "inner": False, "pyseed": ops.u32(),
              "npseed": ops.u32()}
        if prop in history.POINT_PROPS:
            st["arg"] = {"kind": "point", "d": [ops.uniform(-3, 3) for _ in range(3)],
                         "rel": "anchor", "as": "array"}
        elif mode == "valid":
            st["arg"] = {"kind": "factor", "f": 10 ** ops.uniform(-1, 1)}
        else:
            st["arg"] = {"kind": "bad", "bad": ops.choice(["zero", "negative", "nan"]),
                         "f": ops.uniform(0.5, 2.0)}
        steps[0] = st
    if cls not in ("ConvexSpheropolyhedron",) and ops.chance(0.25):
        # a caller that keeps ONE position array for the whole run, updates it in place and
        # assigns it again (pos += dx; shape.centroid = pos)
        pname = "centroid" if "centroid" in settable_of(cls) else "center"
        pts = [s for s in steps if s["op"] == "set" and s.get("prop") in history.POINT_PROPS
               and s["arg"].get("kind") == "point"]
        while len(pts) < 2:
            st = {"op": "set", "prop": pname, "inner": False, "pyseed": ops.u32(),
                  "npseed": ops.u32(),
                  "arg": {"kind": "point", "d": [ops.uniform(-2, 2) for _ in range(3)],
                          "rel": "anchor", "as": "array"}}
            steps.insert(ops.randint(0, len(steps)), st)
            pts.append(st)
        for s in pts:
            s["arg"]["as"] = "array"
        spec["cfg"] = {"reuse_point_array": True}
    spec["steps"] = steps
    return spec


def sample(spec):
    b = spec.get("base") or {}
    return {"base": {k: b.get(k) for k in ("cls", "family", "radius", "a", "b", "c") if k in b},
            "n_vertices": len(b.get("vertices", [])),
            "steps": [{k: s[k] for k in ("op", "prop", "name", "arg", "inner", "solver_script")
                       if k in s and s[k] not in ({}, None, False)} for s in spec["steps"]]}


# --------------------------------------------------------------------------
# oracle helpers
# --------------------------------------------------------------------------
def _orientation(g):
    """Sign of the signed volume / signed area of the geometry (0 if n/a)."""
    if "vertices" not in g:
        return 0.0
    v = g["vertices"]
    if "faces" in g and g["faces"] and len(g["faces"][0]) >= 3:
        try:
            return float(np.sign(history.signed_volume(v, g["faces"])))
        except Exception:  # noqa: BLE001
            return 0.0
    if "normal" in g:
        n = np.zeros(3)
        for a, b in zip(v, np.roll(v, -1, axis=0)):
            n += np.cross(a, b)
        return float(np.sign(np.dot(n, g["normal"])))
    return 0.0


def _sane(g):
    """Finite, not collapsed, non-negative radii."""
    for k, val in g.items():
        if k == "faces":
            continue
        if not np.all(np.isfinite(np.asarray(val, float))):
            return "non-finite " + k
    if "vertices" in g:
        v = g["vertices"]
        if float(np.max(np.linalg.norm(v - v.mean(axis=0), axis=1))) <= 0:
            return "collapsed to a point"
    for k in ("radius",) + AXES:
        if k in g and g[k] < 0:
            return "negative " + k
    return ""


def _geo_equal(a, b):
    if set(a) != set(b):
        return False
    for k in a:
        if k == "faces":
            if len(a[k]) != len(b[k]) or any(not np.array_equal(x, y)
                                             for x, y in zip(a[k], b[k])):
                return False
        elif not np.array_equal(np.asarray(a[k]), np.asarray(b[k]), equal_nan=False):
            return False
    return True


def _similarity(g0, g1):
    """(s, reason): G1 centred = s * G0 centred, everything else untouched."""
    if "vertices" in g0:
        a = g0["vertices"] - g0["vertices"].mean(axis=0)
        b = g1["vertices"] - g1["vertices"].mean(axis=0)
        if a.shape != b.shape:
            return None, "number of vertices changed"
        na, nb = float(np.linalg.norm(a)), float(np.linalg.norm(b))
        if na == 0:
            return None, "degenerate pre-state"
        s = nb / na
        if float(np.vdot(a, b)) < 0:
            s = -s
        diam = float(np.max(np.linalg.norm(a, axis=1)))
        if float(np.max(np.linalg.norm(b - s * a, axis=1))) > 1e-9 * abs(s) * diam + 1e-300:
            return s, "vertices are not a uniform scaling of the previous ones"
        if "radius" in g0:
            if abs(g1["radius"] - s * g0["radius"]) > 1e-9 * abs(s) * max(g0["radius"], diam):
                return s, "rounding radius scaled by %.9g, vertices by %.9g" % (
                    g1["radius"] / g0["radius"] if g0["radius"] else float("nan"), s)
        if "faces" in g0 and (len(g0["faces"]) != len(g1["faces"]) or any(
                not np.array_equal(x, y) for x, y in zip(g0["faces"], g1["faces"]))):
            return s, "faces changed"
        if "normal" in g0 and not np.allclose(g0["normal"], g1["normal"], rtol=0, atol=1e-12):
            return s, "normal changed"
        return s, ""
    keys = [k for k in ("radius",) + AXES if k in g0]
    ratios = [g1[k] / g0[k] for k in keys]
    s = ratios[0]
    if any(abs(r - s) > 1e-9 * abs(s) for r in ratios):
        return s, "semi-axes scaled by different factors %s" % ratios
    return s, ""


def _value(obj, name):
    with warnings.catch_warnings():
        warnings.simplefilter("ignore")
        return float(getattr(obj, name))


def _rtol(prop):
    return 1e-5 if "minimal_bounding" in prop else 1e-8


# --------------------------------------------------------------------------
# execution
# --------------------------------------------------------------------------
def execute(spec, world):
    res = {"violations": [], "counters": Counter(),
           "sets": {"pairs_valid": set(), "pairs_refused": set(), "pairs_with_history": set()},
           "nontrivial": False}
    C = res["counters"]
    log = world.log
    base = spec.get("base")
    if base is None:
        C["base_unbuildable"] += 1
        return res
    with world.step(0, 0, use_fs=False):
        try:
            _kept = []
            obj = gen.build(base, keep=_kept)
            # hostile caller: the arrays handed to the constructor are the caller's, and the
            # caller overwrites them right away (the shape must own copies)
            for _a in _kept:
                if _a.dtype.kind == "f":
                    _a += 1.2345 * (1.0 + np.abs(_a))
        except Exception as e:  # noqa: BLE001
            C["base_unbuildable"] += 1
            log.add("base", "unbuildable", type(e).__name__)
            return res
    cls = type(obj).__name__
    tracked = {"faces_are_convex": base.get("faces_are_convex", True)}
    mutated = 0
    other = None
    if spec["index"] % 4 == 1:
        with world.step(0, 1, use_fs=False):
            try:
                other = gen.build(gen.sibling(base))
                C["runs_with_bystander"] += 1
            except Exception:  # noqa: BLE001
                other = None
    reuse = {} if (spec.get("cfg") or {}).get("reuse_point_array") else None
    if reuse is not None:
        C["runs_with_reused_position_array"] += 1
    for si, st in enumerate(spec["steps"]):
        C["steps"] += 1
        name = op_name(st)
        tgt = history.target_of(obj) if st.get("inner") else obj
        tcls = type(tgt).__name__
        g0 = history.geometry(obj)
        t0 = history.geometry(tgt) if tgt is not obj else g0
        orient0 = _orientation(g0)
        dimless0 = None
        if st["op"] == "set":
            with world.step(5, 5, use_fs=False):
                dimless0 = observe.snapshot(tgt, None, only=set(DIMLESS))
        c_pre = None
        if st["op"] == "set" and st["prop"] in history.POINT_PROPS:
            try:
                with warnings.catch_warnings():
                    warnings.simplefilter("ignore")
                    c_pre = np.array(tgt.centroid, dtype=float, copy=True)
            except Exception:  # noqa: BLE001
                c_pre = None
        r = history.apply(obj, st, world, reuse=reuse)
        attempts = list(world.solver.attempts)
        nfail = sum(1 for a in attempts if a["outcome"] in ("injected", "natural"))
        skip_solver = bool(_solver_skip(world, r.get("pre_attempts", ())))
        try:
            g1 = history.geometry(obj)
            t1 = history.geometry(tgt) if tgt is not obj else g1
        except Exception as e:  # noqa: BLE001
            res["violations"].append(violation(
                PROP, "state", "geometry unreadable after %s: %s" % (name, e), si, cls=cls,
                op=name, what="unreadable"))
            break
        log.add("step", si, name, r["outcome"], type(r["exc"]).__name__ if r["exc"] else None,
                (st.get("arg") or {}).get("kind"), nfail)
        changed = not _geo_equal(g0, g1)
        if changed:
            mutated += 1

        if st["op"] == "set" and (st.get("arg") or {}).get("bad") == "underflow" and \
                r["outcome"] == "ok":
            # a positive target 300 orders of magnitude below the range the property
            # quantifies over was *accepted*: what the shape looks like then is not judged
            # (only a refusal must leave it intact, below)
            C["underflow_target_accepted"] += 1
            break

        # in all cases: finite, not collapsed, same orientation sign, radius >= 0
        why = _sane(g1)
        orient1 = _orientation(g1)
        if not why and orient0 != 0 and orient1 != orient0:
            why = "orientation sign flipped (signed volume/area %+d -> %+d)" % (orient0, orient1)
        if why:
            res["violations"].append(violation(
                PROP, "state", "after %s (%s): %s" % (name, r["outcome"], why), si,
                cls=cls, op=name, what=why.split(" (")[0].split(" by ")[0]))
            break

        if st["op"] != "set":
            continue
        prop = st["prop"]
        arg = st["arg"]
        kind = arg["kind"]
        exc = r["exc"]
        cur = r["cur"]
        res["nontrivial"] = True
        C["setter_steps_judged"] += 1
        pair = "%s.%s" % (tcls, prop)

        if prop in history.POINT_PROPS:
            if r["outcome"] == "raised":
                res["sets"]["pairs_refused"].add(pair + ":" + type(exc).__name__)
                if changed:
                    res["violations"].append(violation(
                        PROP, "refusal-changed-state", "%s raised %s but the geometry changed"
                        % (name, type(exc).__name__), si, cls=tcls, prop=prop))
                    break
                continue
            t = np.asarray(r["value"], float)
            if "vertices" in t0:
                shift = t1["vertices"] - t0["vertices"]
                L = float(np.max(np.abs(t1["vertices"]))) or 1.0
                if float(np.max(np.abs(shift - shift[0]))) > 1e-9 * L:
                    res["violations"].append(violation(
                        PROP, "translation", "%s did not move all vertices by the same vector"
                        % name, si, cls=tcls, prop=prop, what="not-a-translation"))
                    break
                # the translation is the one the class's own centroid implies
                if c_pre is not None and t.shape == c_pre.shape:
                    want = t - c_pre
                    if float(np.max(np.abs(shift[0] - want))) > 1e-9 * (
                            L + float(np.max(np.abs(t)))):
                        res["violations"].append(violation(
                            PROP, "translation", "%s = %s with centroid %s moved the vertices "
                            "by %s" % (name, t.tolist(), c_pre.tolist(), shift[0].tolist()), si,
                            cls=tcls, prop=prop, what="wrong-vector"))
                        break
                # ... and the shape's centroid is then where it was put (the object's own
                # report; since fix 27e122d that holds for clockwise polygons too)
                try:
                    with world.step(st["pyseed"], st["npseed"], use_fs=False):
                        with warnings.catch_warnings():
                            warnings.simplefilter("ignore")
                            got = np.array(tgt.centroid, dtype=float)
                except Exception:  # noqa: BLE001 - unreadable in this state: nothing to compare
                    got = None
                if got is not None and got.shape == t.shape and float(
                        np.max(np.abs(got - t))) > 1e-7 * (L + float(np.max(np.abs(t)))):
                    res["violations"].append(violation(
                        PROP, "translation", "%s = %s, afterwards the centroid reads %s" % (
                            name, t.tolist(), got.tolist()), si, cls=tcls, prop=prop,
                        what="target-missed"))
                    break
            else:
                got = np.asarray(tgt.centroid, float)
                if got.shape != t.shape or not np.allclose(got, t, rtol=1e-12, atol=0):
                    res["violations"].append(violation(
                        PROP, "translation", "centre reads back %s after assigning %s" % (
                            got.tolist(), t.tolist()), si, cls=tcls, prop=prop,
                        what="target-missed"))
                    break
                if any(t0.get(k) != t1.get(k) for k in ("radius",) + AXES):
                    res["violations"].append(violation(
                        PROP, "translation", "assigning the centre changed the size", si,
                        cls=tcls, prop=prop, what="size-changed"))
                    break
            res["sets"]["pairs_valid"].add(pair)
            continue

        if not history.is_size_prop(prop):
            C["unclassified_settable:" + pair] += 1
            continue

        if kind == "bad":
            C["fault.invalid_target." + arg["bad"]] += 1
        valid = kind in ("factor", "abs_zero", "restore")
        if kind == "bad" and arg["bad"] == "zero" and prop == "radius" and \
                tcls.startswith("ConvexSphero"):
            valid = True  # rounding radius 0 is a legal assignment
        if not valid:
            # an assignment that cannot be honoured raises ValueError, state intact
            if r["outcome"] == "ok" and arg.get("bad") == "underflow":
                # a positive target outside the range the property quantifies over: whether
                # it is honoured is not judged - only a refusal must leave the shape intact
                C["underflow_target_accepted"] += 1
                break
            if r["outcome"] == "ok":
                if cur is None:
                    # unreadable getter yet the setter returned: only the state is judged
                    if changed:
                        res["violations"].append(violation(
                            PROP, "bad-target", "%s = %r returned normally and changed the "
                            "shape although the property cannot be read" % (name, r["value"]),
                            si, cls=tcls, prop=prop, what="accepted"))
                        break
                    continue
                res["violations"].append(violation(
                    PROP, "bad-target", "%s = %r (current %r) was accepted%s" % (
                        name, r["value"], cur, "; geometry changed" if changed else ""), si,
                    cls=tcls, prop=prop, what="accepted"))
                break
            res["sets"]["pairs_refused"].add(pair + ":" + type(exc).__name__)
            C["fault.refused_operation." + type(exc).__name__] += 1
            if changed:
                res["violations"].append(violation(
                    PROP, "bad-target", "%s = %r raised %s after changing the shape" % (
                        name, r["value"], type(exc).__name__), si, cls=tcls, prop=prop,
                    what="state-changed"))
                break
            solver_gave_up = isinstance(exc, RuntimeError) and nfail >= 1
            if cur is not None and not isinstance(exc, ValueError) and not solver_gave_up:
                res["violations"].append(violation(
                    PROP, "bad-target", "%s = %r raised %s instead of ValueError" % (
                        name, r["value"], type(exc).__name__), si, cls=tcls, prop=prop,
                    what="wrong-exception", exc=type(exc).__name__))
                break
            C["bad_targets_refused"] += 1
            continue

        # ---- valid target
        v = float(r["value"])
        if r["outcome"] == "raised":
            res["sets"]["pairs_refused"].add(pair + ":" + type(exc).__name__)
            if changed:
                res["violations"].append(violation(
                    PROP, "refusal-changed-state", "%s = %r raised %s but the geometry changed"
                    % (name, v, type(exc).__name__), si, cls=tcls, prop=prop))
                break
            solver_gave_up = isinstance(exc, RuntimeError) and nfail >= 1
            dep = any(a["outcome"].startswith("dep_error") for a in attempts)
            if cur is not None and not solver_gave_up and not dep and v > 0:
                res["violations"].append(violation(
                    PROP, "valid-target-refused", "%s = %r (current %r) raised %s: %s" % (
                        name, v, cur, type(exc).__name__, str(exc)[:80]), si, cls=tcls,
                    prop=prop, exc=type(exc).__name__))
                break
            C["unreadable_or_unsolvable_refusals"] += 1
            continue
        if cur is None:
            C["setter_returned_with_unreadable_getter"] += 1
            continue
        if skip_solver:
            C["solver_uncertified_skips"] += 1
            continue
        # 1. read-back on the object and on a freshly constructed shape
        if other is not None:
            # a second, different live shape of the same class is asked first
            try:
                with world.step(st["pyseed"] ^ 0x0B57, st["npseed"] ^ 0x0B57, use_fs=False):
                    _value(history.target_of(other) if st.get("inner") else other, prop)
            except Exception:  # noqa: BLE001 - whatever the bystander answers
                pass
        try:
            with world.step(st["pyseed"], st["npseed"], use_fs=False):
                back = _value(tgt, prop)
            skip2 = bool(_solver_skip(world))
        except Exception as e:  # noqa: BLE001
            res["violations"].append(violation(
                PROP, "read-back", "%s = %r succeeded but reading it back raises %s" % (
                    name, v, type(e).__name__), si, cls=tcls, prop=prop, what="unreadable",
                exc=type(e).__name__))
            break
        if not skip2 and abs(back - v) > _rtol(prop) * abs(v):
            res["violations"].append(violation(
                PROP, "read-back", "%s = %r reads back %r" % (name, v, back), si, cls=tcls,
                prop=prop, what="target-missed"))
            break
        if v == 0.0:
            # rounding radius := 0 : vertices untouched
            if "vertices" in t0 and not np.array_equal(t0["vertices"], t1["vertices"]):
                res["violations"].append(violation(
                    PROP, "similarity", "rounding radius := 0 moved the vertices", si, cls=tcls,
                    prop=prop, what="vertices-changed"))
                break
            res["sets"]["pairs_valid"].add(pair)
            continue
        try:
            with world.step(st["pyseed"], st["npseed"], use_fs=False):
                fr = history.fresh(tgt, tracked)
                truth = _value(fr, prop)
            skip3 = bool(_solver_skip(world))
            if not skip3 and abs(truth - v) > _rtol(prop) * abs(v):
                res["violations"].append(violation(
                    PROP, "read-back", "after %s = %r a freshly constructed %s has %s = %r "
                    "(the object itself says %r)" % (name, v, tcls, prop, truth, back), si,
                    cls=tcls, prop=prop, what="target-missed-vs-fresh"))
                break
        except Exception:  # noqa: BLE001
            C["model_unavailable"] += 1
        # 2. the rest of the shape changed by a pure similarity
        if prop in AXES:
            others = [k for k in AXES if k != prop and k in t0]
            if any(t0[k] != t1[k] for k in others) or \
                    not np.array_equal(t0.get("centroid"), t1.get("centroid")):
                res["violations"].append(violation(
                    PROP, "similarity", "assigning %s changed another semi-axis or the centre"
                    % prop, si, cls=tcls, prop=prop, what="other-axis-changed"))
                break
        elif prop == "radius" and tcls.startswith("ConvexSphero"):
            if not np.array_equal(t0["vertices"], t1["vertices"]):
                res["violations"].append(violation(
                    PROP, "similarity", "assigning the rounding radius moved the vertices", si,
                    cls=tcls, prop=prop, what="vertices-changed"))
                break
        else:
            s, why = _similarity(t0, t1)
            if why:
                res["violations"].append(violation(
                    PROP, "similarity", "%s = %r (current %r): %s" % (name, v, cur, why), si,
                    cls=tcls, prop=prop, what=why.split(" by ")[0]))
                break
            if s is not None and not s > 0:
                res["violations"].append(violation(
                    PROP, "similarity", "%s = %r scaled the shape by %r" % (name, v, s), si,
                    cls=tcls, prop=prop, what="non-positive-scale"))
                break
            if abs(v / cur - 1) < 1e-12 and not _geo_close(t0, t1, 10 * _rtol(prop)):
                res["violations"].append(violation(
                    PROP, "similarity", "assigning the current value changed the shape", si,
                    cls=tcls, prop=prop, what="identity-changed-shape"))
                break
            # 3. dimensionless descriptors preserved
            with world.step(5, 5, use_fs=False):
                dimless1 = observe.snapshot(tgt, None, only=set(DIMLESS))
            d = observe.diff_equiv(dimless0, dimless1, rtol=1e-7, atol_rel=1e-9)
            # a descriptor that is not a finite number on one side (the elliptic-integral
            # surface area of an ellipsoid over/underflows at sizes of 1e-9 / 1e+9, and the
            # quotient with it) is undefined there, not "changed"
            def _nonfinite(sn, k):
                try:
                    return sn[k][0] == "ok" and not np.all(np.isfinite(
                        np.asarray(sn[k][1], dtype=float)))
                except Exception:  # noqa: BLE001
                    return False
            kept = [x for x in d if not (_nonfinite(dimless0, x[0]) or _nonfinite(dimless1, x[0]))]
            C["dimensionless_undefined_skips"] += len(d) - len(kept)
            d = kept
            if d:
                res["violations"].append(violation(
                    PROP, "similarity", "dimensionless %s changed across %s: %s" % (
                        d[0][0], name, d[0][1]), si, cls=tcls, prop=prop,
                    what="dimensionless:" + d[0][0]))
                break
        res["sets"]["pairs_valid"].add(pair)
        if mutated > 1:
            res["sets"]["pairs_with_history"].add(pair)
    return res


def _geo_close(a, b, rtol=1e-12):
    """Same geometry up to ``rtol`` of its largest coordinate (the setter reads the current
    value itself; for the solver-based radii that reading carries the solver's tolerance)."""
    for k in a:
        if k == "faces":
            continue
        x, y = np.asarray(a[k], float), np.asarray(b[k], float)
        scale = float(np.max(np.abs(x))) if x.size else 0.0
        if x.shape != y.shape or float(np.max(np.abs(x - y))) > rtol * scale + 1e-300:
            return False
    return True


# --------------------------------------------------------------------------
# shrinking help
# --------------------------------------------------------------------------
def simplify(spec):
    for i, st in enumerate(spec["steps"]):
        arg = st.get("arg") or {}
        if arg.get("kind") == "factor" and arg.get("f") != 2.0:
            c = copy.deepcopy(spec)
            c["steps"][i]["arg"]["f"] = 2.0
            yield c
        if arg.get("kind") == "bad" and arg.get("f") != 1.0:
            c = copy.deepcopy(spec)
            c["steps"][i]["arg"]["f"] = 1.0
            yield c
        if arg.get("kind") == "point" and arg.get("d") != [1.0, 0.0, 0.0]:
            c = copy.deepcopy(spec)
            c["steps"][i]["arg"] = {"kind": "point", "d": [1.0, 0.0, 0.0], "rel": "anchor",
                                    "as": "list"}
            yield c
    from .c03 import simplify as s3

    for c in s3(dict(spec, cfg={"observe": "full"})):
        if c.get("base") != spec.get("base"):
            c.pop("cfg", None)
            yield c
    b = spec["base"]
    if b["cls"] in gen.CURVED and b.get("family") != "unit@":
        c = copy.deepcopy(spec)
        nb = {"cls": b["cls"], "family": "unit@", "center": [1.0, 2.0, 0.0]}
        if "radius" in b:
            nb["radius"] = 1.0
        if "a" in b:
            nb["a"], nb["b"] = 1.0, 2.0
        if "c" in b:
            nb["c"] = 3.0
        c["base"] = nb
        yield c
