"""C13 (scoped) - the minimal bounding ball under solver faults and hidden RNG state.

Only this clause of C13 meets nondeterminism: a retry loop with random
rotations (numpy global RNG through rowan) around a solver that draws its
pivots from the stdlib global RNG and that fails (LinAlgError) in real use.

Two-level judgement of every query:
  L1  coxeter's own logic, strict: the returned ball equals the raw answer of
      the last successful solver attempt, un-rotated by the rotation that maps
      the shape's vertices onto the array that attempt received (recovered by
      an orthogonal Procrustes fit, so no knowledge of coxeter's RNG draws);
  L2  end to end: an optimality certificate (containment + centre in the convex
      hull of the contact points + in-plane for polygons) on the returned ball.
L2 failures are attributed: if the solver's raw output fails the certificate on
the solver's own input, the signature says ``solver-uncertified-raw``.
"""

import copy
from collections import Counter

import numpy as np
from scipy.optimize import nnls

from .. import gen, history
from ..engine import raise_site, violation
from ..rng import Stream
from . import c13_defs

PROP = "C13"
TIERS = {
    "quick": {"runs": 24000, "chunk": 50, "shrink_cap_s": 40, "max_minimised": 8},
    "thorough": {"budget_s": 900, "chunk": 50, "shrink_cap_s": 120, "max_minimised": 16},
    "run_cap_s": 60,
}
RULE = ("One run = one vertex-based shape (Polyhedron, ConvexPolyhedron, Polygon, ConvexPolygon; "
        "cospherical/cocircular families, prisms, pyramids, needles, flats, generic hulls) in a "
        "random rigid placement off the origin, queried 1-3 times through "
        "minimal_bounding_sphere/_circle, the *_radius getter or the *_radius setter; per query "
        "the schedule fixes both global RNG seeds (pivot order, retry rotations) and a solver "
        "fault script (LinAlgError before attempt k: first-k, random subset, alternating, all "
        "ten); a final fault-free query checks progress. The *_radius getter is also judged end to "
        "end against a certified reference radius computed by the harness outside the simulated "
        "step (so a memoised or stale radius is seen even when the getter makes no solver call); "
        "8 % of ball queries go through the deprecated spelling bounding_sphere/bounding_circle. The first 4*11 run indices are "
        "stratified (class x first-k faults, k=0..10). Non-trivial = at least one solver attempt "
        "was recorded; distinct = distinct sha256 digests of the event log (seeds, attempts, "
        "raw r^2 as hex, verdicts).")
ASSUMPTIONS = [
    "Injected fault = numpy.linalg.LinAlgError raised by miniball.get_bounding_ball before it "
    "runs: the failure the code itself anticipates; natural LinAlgErrors are recorded and count "
    "towards the attempt number.",
    "Certificate tolerances 1e-6 relative (miniball's own epsilon is 1e-7 absolute); a "
    "RuntimeError after ten failed attempts is an admissible outcome.",
    "Exceptions of other types coming out of miniball (e.g. TypeError for an unresolved "
    "cospherical support set) are recorded as dependency_error, not judged.",
    "Scoped: centred balls, in-/circum-balls and curved shapes are pure functions of the input "
    "and not decided here.",
]

CLASSES = ["Polyhedron", "ConvexPolyhedron", "Polygon", "ConvexPolygon"]


# --------------------------------------------------------------------------
# certificate
# --------------------------------------------------------------------------
def certificate(V, c, r, normal=None, tol=1e-6):
    """None if (c, r) is the minimum enclosing ball of V, else a reason code."""
    V = np.asarray(V, float)
    c = np.asarray(c, float)
    if not (np.all(np.isfinite(c)) and np.isfinite(r)):
        return "non-finite"
    d = np.linalg.norm(V - c, axis=1)
    if d.max() > r * (1 + tol) + 1e-300:
        return "not-containing"
    S = V[d >= r * (1 - tol)]
    if len(S) == 0:
        return "not-minimal"
    # c must be a convex combination of the contact points
    scale = max(r, 1e-300)
    A = np.vstack([(S - c).T / scale, np.ones((1, len(S)))])
    b = np.concatenate([np.zeros(V.shape[1]), [1.0]])
    lam, resid = nnls(A, b)
    if resid > tol * 10:
        return "not-minimal"
    if normal is not None:
        n = np.asarray(normal, float)
        n = n / np.linalg.norm(n)
        if abs(float(np.dot(c - V[0], n))) > tol * scale:
            return "off-plane"
    return None


def recover_rotation(V, W):
    """Orthogonal R with W ~ V @ R.T about the origin (no translation).
    Returns (R, rms residual relative to the size of V)."""
    V = np.asarray(V, float)
    W = np.asarray(W, float)
    if V.shape != W.shape:
        return None, np.inf
    H = V.T @ W
    U, S, Vt = np.linalg.svd(H)
    R = (U @ Vt).T
    res = float(np.sqrt(np.mean(np.sum((V @ R.T - W) ** 2, axis=1))))
    size = float(np.sqrt(np.mean(np.sum(V ** 2, axis=1)))) or 1.0
    return R, res / size


def reference_radius(V, real_solver, seed):
    """Independent end-to-end reference: the radius of a *certified* minimum
    enclosing ball of V, obtained by running the real solver outside the
    simulated step under the harness's own pivot seeds / rotations until its
    answer passes the optimality certificate.  None if no attempt certifies."""
    import random as _random

    V = np.asarray(V, float)
    if real_solver is None or not np.all(np.isfinite(V)):
        return None
    state = _random.getstate()
    rs = np.random.RandomState(seed & 0x7FFFFFFF)
    try:
        for k in range(12):
            _random.seed((seed * 31 + k) & 0xFFFFFFFF)
            if k == 0:
                W = V
            else:
                q = rs.normal(size=(V.shape[1], V.shape[1]))
                Q, _ = np.linalg.qr(q)
                W = V @ Q.T
            try:
                c, r2 = real_solver(W)
            except Exception:  # noqa: BLE001 - a failing attempt: try another placement
                continue
            r = float(np.sqrt(max(float(r2), 0.0)))
            if certificate(W, np.asarray(c, float), r) is None:
                return r
    finally:
        _random.setstate(state)
    return None


# --------------------------------------------------------------------------
# generation
# --------------------------------------------------------------------------
def elongated_pyramid(n, h1=1.0, h2=0.6):
    p = gen.prism(n, h1)
    return p + [[0.0, 0.0, h1 / 2 + h2]]


def _gen_base(rng, cls):
    if cls in ("Polyhedron", "ConvexPolyhedron"):
        fam = rng.weighted([("cube", 2), ("box", 1), ("tetrahedron", 1), ("octahedron", 2),
                            ("icosahedron", 2), ("dodecahedron", 2), ("snub_cube", 1),
                            ("prism", 2), ("antiprism", 1), ("pyramid", 1), ("bipyramid", 1),
                            ("ellipsoid_pts", 2), ("elongated_pyramid", 2), ("needle", 1),
                            ("flat", 1)])
        if fam == "elongated_pyramid":
            v0 = elongated_pyramid(rng.randint(3, 6), rng.uniform(0.6, 1.5), rng.uniform(0.3, 1.0))
        elif fam == "needle":
            v0 = gen.ellipsoid_points(rng, rng.randint(5, 10), [1.0, 0.08, 0.06])
        elif fam == "flat":
            v0 = gen.ellipsoid_points(rng, rng.randint(5, 10), [1.0, 0.9, 0.05])
        else:
            v0 = gen.CONVEX3D[fam](rng)
        scale = 10 ** (rng.uniform(-1, 1) if rng.chance(0.8) else rng.uniform(-3, 3))
        if rng.chance(0.1):
            # no vendored helper with absolute tolerances sits on this path: some runs live at
            # very small sizes, where an absolute slack in a ball computation is all there is
            scale = 10 ** rng.uniform(-7, -3)
        v, R, s, off = gen.place3d(v0, rng, scale=scale,
                                   offset_diam=rng.choice([0.0, 1.0, 1.0, 3.0, 10.0]))
        base = {"cls": cls, "family": fam, "vertices": gen.tolist(v)}
        if cls == "Polyhedron":
            base["faces"] = gen.hull_faces(v0)
            base["faces_are_convex"] = True
        return base
    fam = rng.weighted([("regular", 4), ("rectangle", 2), ("kite", 1), ("convex_pts", 2),
                        ("square", 1)] + ([("star", 2), ("comb", 1), ("l_poly", 1)]
                                          if cls == "Polygon" else []))
    p = (gen.POLY2D_CONVEX.get(fam) or gen.POLY2D_NONCONVEX[fam])(rng)
    scale = 10 ** (rng.uniform(-1, 1) if rng.chance(0.8) else rng.uniform(-3, 3))
    v, normal = gen.embed2d(p, rng, scale=scale,
                            offset_diam=rng.choice([0.0, 1.0, 1.0, 3.0, 10.0]))
    return {"cls": cls, "family": fam, "vertices": gen.tolist(v),
            "normal": gen.tolist(normal) if rng.chance(0.5) else None}


def _script(rng, pattern=None, k=None):
    pattern = pattern or rng.weighted([("none", 3), ("first_k", 5), ("subset", 2),
                                       ("alternating", 1), ("all", 1)])
    if pattern == "none":
        return []
    if pattern == "first_k":
        k = rng.randint(1, 9) if k is None else k
        return [True] * k
    if pattern == "subset":
        return [rng.chance(0.4) for _ in range(10)]
    if pattern == "alternating":
        return [i % 2 == 0 for i in range(rng.randint(2, 10))]
    return [True] * 10


def gen_spec(seed, index, tier):
    rng = Stream(seed, "c13")
    n_strat = len(CLASSES) * 11
    if index < n_strat:
        cls = CLASSES[index % len(CLASSES)]
        k0 = index // len(CLASSES)
    else:
        cls = rng.choice(CLASSES)
        k0 = None
    if index >= n_strat and rng.chance(0.3):
        return _gen_defs_spec(rng, seed, index, tier)
    base = _gen_base(rng.sub("shape"), cls)
    ops = rng.sub("ops")
    steps = []
    # a tenth of the runs use the deprecated spelling (bounding_sphere / bounding_circle) for
    # every ball query of the run: a result remembered under that name must follow the shape
    alias_run = ops.chance(0.1)
    for qi in range(ops.randint(1, 3)):
        op = ops.weighted([("ball", 5), ("radius", 2), ("set_radius", 2), ("set_radius_bad", 1),
                           ("refused_rescale", 1)])
        st = {"op": op, "pyseed": ops.u32(), "npseed": ops.u32(),
              "solver_script": _script(ops, "first_k" if (qi == 0 and k0) else
                                       ("none" if (qi == 0 and k0 == 0) else None), k0)}
        if op == "set_radius":
            st["factor"] = 10 ** ops.uniform(-1, 1)
        if op in ("set_radius_bad", "refused_rescale"):
            st["bad"] = ops.choice(["zero", "negative", "nan"])
            st["solver_script"] = []
        if op == "ball":
            # hostile caller: scribble on the returned ball afterwards (it must be the
            # caller's own object, not state the next query depends on)
            st["scribble"] = ops.chance(0.3)
            # the deprecated spelling (bounding_sphere / bounding_circle) must give the same ball
            st["alias"] = alias_run or ops.chance(0.04)
        steps.append(st)
    steps.append({"op": "ball", "pyseed": ops.u32(), "npseed": ops.u32(), "solver_script": [],
                  "progress": True, "alias": alias_run})
    return {"property": PROP, "index": index, "seed": seed, "base": base, "steps": steps}


def _gen_defs_spec(rng, seed, index, tier):
    """A history of mutators with the definitional invariants of every ball evaluated at
    each state (c13_defs).  All eight classes that implement balls."""
    cls = rng.choice(list(c13_defs.DEF_CLASSES))
    shape_rng = rng.sub("shape")
    scale = 10 ** (shape_rng.uniform(-1, 1) if shape_rng.chance(0.8) else
                   shape_rng.uniform(-2.5, 2.5))
    base, obj = None, None
    for _ in range(20):
        if cls in gen.CURVED:
            cand = gen.gen_base(shape_rng, cls, scale=scale)
        else:
            cand = gen.gen_base(shape_rng, cls, scale=max(scale, 0.5) if cls == "Polyhedron"
                                else scale)
        try:
            obj = gen.build(cand)
            base = cand
            break
        except Exception:  # noqa: BLE001
            continue
    ops = rng.sub("ops")
    steps = [{"op": "defs"}]
    if base is not None:
        curved = cls in gen.CURVED
        for m in history.gen_steps(ops, obj, ops.randint(0, 4), bad_rate=0.05,
                                   setter_bias=3.0, factor_decades=1.0,
                                   ext_range=((1e-6, 1e6) if curved else
                                              (0.3 if cls == "Polyhedron" else 1e-2, 300.0)),
                                   coord_max=1e8 if curved else 2500.0):
            steps.append({"op": "mutate", "m": m})
            steps.append({"op": "defs"})
    return {"property": PROP, "index": index, "seed": seed, "base": base, "steps": steps,
            "kind": "defs", "bystander": ops.chance(0.6), "scribble": ops.chance(0.4)}


def sample(spec):
    if spec.get("kind") == "defs":
        b = spec.get("base") or {}
        return {"kind": "defs", "base": {k: b.get(k) for k in ("cls", "family")},
                "steps": [s["op"] if s["op"] != "mutate" else
                          {k: s["m"][k] for k in ("op", "prop", "name", "arg") if k in s["m"]}
                          for s in spec["steps"]]}
    return {"base": {k: spec["base"].get(k) for k in ("cls", "family")},
            "n_vertices": len(spec["base"]["vertices"]),
            "steps": [{k: s[k] for k in ("op", "solver_script", "factor", "bad", "scribble", "alias",
                                         "pyseed", "npseed", "progress") if k in s}
                      for s in spec["steps"]]}


# --------------------------------------------------------------------------
# execution
# --------------------------------------------------------------------------
def _site(shape, name):
    for k in type(shape).__mro__:
        if name in k.__dict__:
            return "%s.%s" % (k.__name__, name)
    return name


def _names(shape):
    if hasattr(shape, "minimal_bounding_sphere") and type(shape).__name__.endswith("hedron"):
        return "minimal_bounding_sphere", "minimal_bounding_sphere_radius"
    return "minimal_bounding_circle", "minimal_bounding_circle_radius"


def judge_ball(res, world, shape, V, center, radius, si, cls, normal, what):
    """L1 + L2 on a returned ball; returns True if a comparison-grade answer."""
    C = res["counters"]
    attempts = world.solver.attempts
    ok_attempts = [a for a in attempts if a["outcome"] == "ok"]
    nfail = sum(1 for a in attempts if a["outcome"] in ("injected", "natural"))
    res["sets"]["failures_per_query"].add("%d" % nfail)
    size = float(np.linalg.norm(center)) + float(radius)
    raw_bad = None
    if ok_attempts:
        last = ok_attempts[-1]
        c_raw, r2_raw = last["raw"]
        raw_bad = certificate(last["W"], c_raw, np.sqrt(max(r2_raw, 0.0)))
        R, rel = recover_rotation(V, last["W"])
        if R is not None and rel < 1e-9:
            C["L1_checked"] += 1
            expect_c = c_raw @ R  # = R^-1 applied to the raw centre
            expect_r = float(np.sqrt(max(r2_raw, 0.0)))
            if np.linalg.norm(np.asarray(center, float) - expect_c) > 1e-9 * max(size, 1e-300):
                res["violations"].append(violation(
                    PROP, "L1-unrotation", "returned centre %s but the last successful attempt "
                    "(after %d failed) gives %s once its rotation is undone" % (
                        np.asarray(center).tolist(), nfail, expect_c.tolist()), si,
                    site=_site(shape, _names(shape)[0]), what="centre"))
                return False
            if abs(float(radius) - expect_r) > 1e-9 * max(expect_r, 1e-300):
                res["violations"].append(violation(
                    PROP, "L1-unrotation", "returned radius %r, solver said %r" % (
                        float(radius), expect_r), si, site=_site(shape, _names(shape)[0]),
                    what="radius"))
                return False
        else:
            C["L1_vacuous_input_not_a_rotation"] += 1
    else:
        C["L1_vacuous_no_solver_attempt"] += 1
    bad = certificate(V, center, radius, normal)
    C["L2_checked"] += 1
    if bad:
        if raw_bad:
            C["solver_uncertified_raw"] += 1
            res["violations"].append(violation(
                PROP, "L2-certificate", "returned ball is %s; the solver's raw output already "
                "fails the certificate on its own input (%s)" % (bad, raw_bad), si,
                attribution="solver-uncertified-raw"))
        else:
            res["violations"].append(violation(
                PROP, "L2-certificate", "returned ball (c=%s, r=%r) is %s for the shape's "
                "vertices although the solver's raw answer was sound" % (
                    np.asarray(center).tolist(), float(radius), bad), si,
                attribution="coxeter", cls=cls, what=bad, op=what))
        return False
    return True


def execute(spec, world):
    res = {"violations": [], "counters": Counter(),
           "sets": {"failures_per_query": set(), "cls_x_script": set(), "pivot_digests": set()},
           "nontrivial": False}
    C = res["counters"]
    log = world.log
    base = spec["base"]
    if base is None:
        C["base_unbuildable"] += 1
        return res
    with world.step(0, 0, use_fs=False):
        try:
            shape = gen.build(base)
        except Exception as e:  # noqa: BLE001
            C["base_unbuildable"] += 1
            log.add("base", "unbuildable", type(e).__name__)
            return res
    cls = type(shape).__name__
    if spec.get("kind") == "defs":
        return _execute_defs(spec, world, shape, res)
    ball_name, rad_name = _names(shape)
    normal = np.array(shape.normal, copy=True) if hasattr(shape, "normal") else None

    for si, st in enumerate(spec["steps"]):
        C["steps"] += 1
        V = np.array(shape.vertices, copy=True)
        op = st["op"]
        script = st.get("solver_script") or []
        exc = None
        out = None
        with world.step(st["pyseed"], st["npseed"], solver_script=script, use_fs=False):
            try:
                if op == "ball":
                    out = getattr(shape, ball_name.replace("minimal_", "")
                                  if st.get("alias") else ball_name)
                elif op == "radius":
                    out = getattr(shape, rad_name)
                elif op in ("set_radius_bad", "refused_rescale"):
                    bad = {"zero": 0.0, "negative": -1.5, "nan": float("nan")}[st["bad"]]
                    if op == "set_radius_bad":
                        setattr(shape, rad_name, bad)
                    else:
                        # any size setter of the class ends in the same _rescale
                        prop = "volume" if hasattr(type(shape), "volume") else "area"
                        setattr(shape, prop, bad)
                else:
                    target = None
                    # the target is relative to the true current radius, which the harness
                    # estimates from the vertices' extent (any positive number is legal)
                    ext = float(np.max(np.linalg.norm(V - V.mean(axis=0), axis=1)))
                    target = ext * st["factor"]
                    setattr(shape, rad_name, target)
            except BaseException as e:  # noqa: BLE001
                if isinstance(e, (KeyboardInterrupt, SystemExit)) or \
                        type(e).__name__ == "HarnessTimeout":
                    raise
                exc = e
        attempts = world.solver.attempts
        nfail = sum(1 for a in attempts if a["outcome"] in ("injected", "natural"))
        ninj = sum(1 for a in attempts if a["outcome"] == "injected")
        nok = sum(1 for a in attempts if a["outcome"] == "ok")
        if attempts:
            res["nontrivial"] = True
        C["solver_attempts"] += len(attempts)
        C["queries_with_ge2_retries"] += 1 if nfail >= 2 else 0
        res["sets"]["cls_x_script"].add("%s:%s:inj%d:nat%d" % (cls, op, ninj, nfail - ninj))
        res["sets"]["pivot_digests"].add("%s:%s" % (
            float(attempts[-1]["raw"][1]).hex() if attempts and attempts[-1]["raw"] else "-",
            len(attempts)))
        log.add("step", si, op, "raised:" + type(exc).__name__ if exc else "ok",
                [a["outcome"] for a in attempts])
        Vafter = np.array(shape.vertices, copy=True)

        if op in ("set_radius_bad", "refused_rescale"):
            # an invalid target: whether it is refused is C08's question; here only what the
            # next queries return matters - and a refusal must not have touched the shape
            C["invalid_target_" + ("refused" if exc is not None else "accepted")] += 1
            if exc is not None and not np.array_equal(V, Vafter):
                res["violations"].append(violation(
                    PROP, "failed-op-changed-shape", "vertices differ after %s raised %s" % (
                        op, type(exc).__name__), si, cls=cls, op=op))
                break
            if exc is None and not np.all(np.isfinite(Vafter)):
                break  # accepted and destroyed: nothing left to query (C08 territory)
            continue
        if exc is not None:
            if isinstance(exc, RuntimeError) and "nable to solve" in str(exc):
                C["unsolvable_raised"] += 1
                if nok > 0:
                    C["unsolvable_although_an_attempt_succeeded"] += 1
                elif nfail < 10:
                    res["violations"].append(violation(
                        PROP, "retry-loop", "gave up after %d failed attempts (< 10)" % nfail,
                        si, cls=cls, what="gave-up-early", op=op))
            elif any(a["outcome"].startswith("dep_error") for a in attempts):
                C["dependency_error:" + type(exc).__name__] += 1
            else:
                res["violations"].append(violation(
                    PROP, "query-raised", "%s raised %s: %s" % (op, type(exc).__name__, exc), si,
                    cls=cls, exc=type(exc).__name__, site=raise_site(exc), op=op))
            if not np.array_equal(V, Vafter):
                res["violations"].append(violation(
                    PROP, "failed-op-changed-shape", "vertices differ after %s raised %s" % (
                        op, type(exc).__name__), si, cls=cls, op=op))
                break
            if st.get("progress") and ninj == 0 and nfail < 10 and nok == 0 and \
                    not any(a["outcome"].startswith("dep_error") for a in attempts):
                res["violations"].append(violation(
                    PROP, "progress", "fault-free query after the fault script raised %s" %
                    type(exc).__name__, si, cls=cls))
            continue

        if op == "ball":
            try:
                center = np.array(out.centroid, dtype=float)
                radius = float(out.radius)
            except Exception as e:  # noqa: BLE001
                res["violations"].append(violation(
                    PROP, "query-raised", "returned object is not a ball: %r" % (out,), si,
                    cls=cls, what="not-a-ball"))
                continue
            judge_ball(res, world, shape, V, center, radius, si, cls, normal, op)
            if st.get("scribble"):
                try:
                    out.radius = float(out.radius) * 1.25
                    out.centroid = np.asarray(out.centroid, float) + 0.37 * float(radius)
                    C["returned_balls_scribbled"] += 1
                except Exception:  # noqa: BLE001 - an immutable result is fine too
                    pass
            if not np.array_equal(V, Vafter):
                res["violations"].append(violation(
                    PROP, "query-changed-shape", "vertices differ after the query", si, cls=cls))
                break
        elif op == "radius":
            ok_attempts = [a for a in attempts if a["outcome"] == "ok"]
            if ok_attempts:
                expect = float(np.sqrt(max(ok_attempts[-1]["raw"][1], 0.0)))
                if abs(float(out) - expect) > 1e-9 * max(expect, 1e-300):
                    res["violations"].append(violation(
                        PROP, "L1-unrotation", "radius getter returned %r, solver said %r" % (
                            float(out), expect), si, site=_site(shape, rad_name),
                        what="radius"))
            # end to end (also when the getter made no solver call at all, e.g. a memo):
            # against a certified reference radius computed outside the simulated step
            raw_bad = None
            if ok_attempts:
                c_raw, r2_raw = ok_attempts[-1]["raw"]
                raw_bad = certificate(ok_attempts[-1]["W"], c_raw, np.sqrt(max(r2_raw, 0.0)))
            ref = reference_radius(V, world.solver.real, st["pyseed"])
            if ref is None:
                C["reference_radius_unavailable"] += 1
            elif raw_bad:
                C["solver_uncertified_raw"] += 1
                if abs(float(out) - ref) > 1e-5 * ref:
                    res["violations"].append(violation(
                        PROP, "L2-certificate", "radius getter passed on a radius the solver got "
                        "wrong (%s)" % raw_bad, si, attribution="solver-uncertified-raw"))
            else:
                C["radius_getter_checked_end_to_end"] += 1
                if not (abs(float(out) - ref) <= 1e-5 * ref):
                    res["violations"].append(violation(
                        PROP, "L2-certificate", "radius getter returned %r, the certified minimal "
                        "radius of the current vertices is %r (%d solver attempts in this call)"
                        % (float(out), ref, len(attempts)), si, attribution="coxeter", cls=cls,
                        what="radius-wrong", op=op))
        else:
            # setter succeeded: pure similarity about the origin, then read back
            s_num = float(np.vdot(V, Vafter) / max(np.vdot(V, V), 1e-300))
            if not (s_num > 0 and np.allclose(Vafter, V * s_num, rtol=1e-12,
                                              atol=1e-12 * np.abs(V).max())):
                res["violations"].append(violation(
                    PROP, "setter", "vertices after the radius setter are not a positive "
                    "multiple of the vertices before", si, cls=cls, what="not-a-similarity"))
                break
            ext = float(np.max(np.linalg.norm(V - V.mean(axis=0), axis=1)))
            target = ext * st["factor"]
            with world.step(st["pyseed"] ^ 0x5A5A, st["npseed"] ^ 0xA5A5, use_fs=False):
                try:
                    ball = getattr(shape, ball_name)
                    c2, r2 = np.array(ball.centroid, float), float(ball.radius)
                except Exception as e:  # noqa: BLE001
                    ball = None
            if ball is not None:
                sound = judge_ball(res, world, shape, Vafter, c2, r2, si, cls, normal, "set_radius")
                if sound and abs(r2 - target) > 1e-5 * target:
                    # was the setter's own ball sound?  (attempts of the setter call)
                    ok_attempts = [a for a in attempts if a["outcome"] == "ok"]
                    raw_bad = None
                    if ok_attempts:
                        c_raw, r2_raw = ok_attempts[-1]["raw"]
                        raw_bad = certificate(ok_attempts[-1]["W"], c_raw,
                                              np.sqrt(max(r2_raw, 0.0)))
                    if raw_bad:
                        C["solver_uncertified_raw"] += 1
                        res["violations"].append(violation(
                            PROP, "L2-certificate", "setter scaled by a radius the solver got "
                            "wrong (%s)" % raw_bad, si, attribution="solver-uncertified-raw"))
                    else:
                        res["violations"].append(violation(
                            PROP, "setter", "after setting %s = %r the certified minimal radius "
                            "is %r" % (rad_name, target, r2), si, cls=cls,
                            what="target-missed"))
    return res


def _execute_defs(spec, world, shape, res):
    C = res["counters"]
    log = world.log
    cls = type(shape).__name__
    other = None
    if spec.get("bystander"):
        # a second live object of the same class, read before every reading of the first
        with world.step(0, 1, use_fs=False):
            try:
                other = gen.build(gen.sibling(spec["base"]))
                C["runs_with_bystander"] += 1
            except Exception:  # noqa: BLE001 - the sibling is only a bystander
                other = None
    for si, st in enumerate(spec["steps"]):
        C["steps"] += 1
        if st["op"] == "mutate":
            r = history.apply(shape, st["m"], world)
            C["defs_mutations_" + r["outcome"]] += 1
            if r["outcome"] == "ok" and (st["m"].get("arg") or {}).get("kind") == "bad" and not (
                    st["m"].get("prop") == "radius" and st["m"]["arg"].get("bad") == "zero"):
                # an invalid target was accepted: whether that is allowed is C08's clause;
                # the state that results is not one the definitions are judged on
                C["defs_invalid_target_accepted"] += 1
                break
            log.add("mutate", si, st["m"].get("prop") or st["m"].get("name"), r["outcome"])
            try:
                g = history.geometry(shape)
                usable = all(k == "faces" or np.all(np.isfinite(np.asarray(v, float)))
                             for k, v in g.items())
            except Exception:  # noqa: BLE001
                usable = False
            if not usable:
                C["state_after_mutation_unusable"] += 1
                break
            continue
        before = len(res["violations"])
        with world.step(11, 13, use_fs=False):
            if other is not None:
                c13_defs.check_definitions(other, res, si)
            if len(res["violations"]) == before:
                # hostile caller: the balls handed out in the first pass are edited by the
                # caller (they are the caller's objects); the second pass must still hold
                c13_defs.check_definitions(shape, res, si, scribble=bool(spec.get("scribble")))
                if spec.get("scribble") and len(res["violations"]) == before:
                    c13_defs.check_definitions(shape, res, si)
        res["nontrivial"] = True
        res["sets"]["cls_x_script"].add("%s:defs" % cls)
        log.add("defs", si, len(res["violations"]) - before)
        if len(res["violations"]) > before:
            break
    return res


# --------------------------------------------------------------------------
# shrinking help
# --------------------------------------------------------------------------
def simplify(spec):
    if spec.get("kind") == "defs":
        return
    for i, st in enumerate(spec["steps"]):
        if st.get("factor") not in (None, 2.0):
            c = copy.deepcopy(spec)
            c["steps"][i]["factor"] = 2.0
            yield c
        sc = st.get("solver_script") or []
        if sc and not all(sc):
            k = sum(1 for x in sc if x)
            c = copy.deepcopy(spec)
            c["steps"][i]["solver_script"] = [True] * k
            yield c
        if len(sc) > 1:
            c = copy.deepcopy(spec)
            c["steps"][i]["solver_script"] = sc[:-1]
            yield c
    b = spec["base"]
    if b["cls"] in ("Polyhedron", "ConvexPolyhedron") and b.get("family") != "cube@2":
        c = copy.deepcopy(spec)
        v = (np.array(gen.cube(), float) + np.array([2.0, 3.0, 5.0]))
        c["base"] = {"cls": b["cls"], "family": "cube@2", "vertices": v.tolist()}
        if b["cls"] == "Polyhedron":
            c["base"]["faces"] = gen.hull_faces(gen.cube())
            c["base"]["faces_are_convex"] = True
        yield c
    if b["cls"] in ("Polygon", "ConvexPolygon") and b.get("family") != "square@2":
        c = copy.deepcopy(spec)
        v = np.array([[1.0, 1, 0], [-1, 1, 0], [-1, -1, 0], [1, -1, 0]]) + np.array([2.0, 3.0, 0])
        c["base"] = {"cls": b["cls"], "family": "square@2", "vertices": v.tolist(),
                     "normal": None}
        yield c
