"""C13 - definitional invariants of every ball the property names, evaluated at the
states the simulation visits (after construction, after every mutator of a history,
after refused operations).

These clauses are pure functions of the current state; what the simulation adds is the
*states*: shapes with history (semi-axes whose order was flipped by an assignment,
polygons rescaled through a radius setter, solids after diagonalize_inertia / merge_faces),
in every rigid placement.  The oracles below use only the defining geometry (vertices,
faces, normal, radii / semi-axes, and the centroid the object itself reports) - none of
coxeter's formulas for the balls.
"""

import warnings

import numpy as np

from ..engine import violation

PROP = "C13"
VERTEX_CLASSES = ("ConvexPolyhedron", "Polyhedron", "ConvexPolygon", "Polygon")
CURVED_CLASSES = ("Circle", "Ellipse", "Sphere", "Ellipsoid")
DEF_CLASSES = VERTEX_CLASSES + CURVED_CLASSES
# coxeter decides "a circum-/in-ball exists" by np.isclose(least-squares residual, 0) - an
# absolute 1e-8 on a quantity of dimension length^4 (length^2 for in-balls).  For shapes of
# unit size that admits balls that miss a vertex by up to ~1e-3 radii (a tolerance question,
# not judged); a ball that is off by more than 1 % of its radius violates the definition
# under any reading.
ACCEPT_DEV = 1e-2


_SCRIBBLE = [False]


def _scribble_ball(value):
    """The caller edits a ball it was handed (its own object)."""
    try:
        r = float(value.radius)
        c = np.array(value.centroid, dtype=float)
        value.radius = r * 1.25
        value.centroid = c + 0.37 * r
    except Exception:  # noqa: BLE001 - an immutable result is fine too
        pass


def _read(shape, name):
    """('ok', value) | ('ni',) | ('rt', exc) | ('exc', exc) | ('absent',)"""
    if not hasattr(type(shape), name):
        return ("absent", None)
    try:
        with warnings.catch_warnings():
            warnings.simplefilter("ignore")
            return ("ok", getattr(shape, name))
    except NotImplementedError:
        return ("ni", None)
    except RuntimeError as e:
        return ("rt", e)
    except Exception as e:  # noqa: BLE001
        if type(e).__name__ == "HarnessTimeout":
            raise
        return ("exc", e)


def _ball(value):
    c = np.array(value.centroid, dtype=float)
    r = float(value.radius)
    if _SCRIBBLE[0]:
        _scribble_ball(value)
    return c, r


def regime(extent):
    # the absolute threshold 1e-8 on the squared residual admits relative deviations of about
    # 1e-4 / extent^2: beyond 1 % below extent 0.1, beyond 0.1 % below extent 0.3
    return "small" if extent < 0.3 else ("large" if extent > 30.0 else "unit")


def _newell(P):
    n = np.zeros(3)
    for a, b in zip(P, np.roll(P, -1, axis=0)):
        n += np.cross(a, b)
    return n


def face_planes(V, faces):
    """Outward unit normals and offsets (n.x = d) from the vertex cycles alone."""
    out = []
    for f in faces:
        P = V[[int(i) for i in f]]
        n = _newell(P - P.mean(axis=0))
        ln = float(np.linalg.norm(n))
        if ln == 0:
            return None
        n = n / ln
        out.append((n, float(np.dot(n, P.mean(axis=0)))))
    return out


def true_centroid(V, faces=None, normal=None):
    """Centroid of the solid (vertices + outward face cycles) or of the planar polygon,
    from the defining geometry alone."""
    V = np.asarray(V, float)
    m = V.mean(axis=0)
    W = V - m
    if faces is not None:
        vol, acc = 0.0, np.zeros(3)
        for f in faces:
            f = [int(i) for i in f]
            for i in range(1, len(f) - 1):
                a, b, c = W[f[0]], W[f[i]], W[f[i + 1]]
                v6 = float(np.dot(a, np.cross(b, c)))
                vol += v6
                acc += v6 * (a + b + c) / 4.0
        if vol == 0:
            return None
        return m + acc / vol
    area2, acc = np.zeros(3), np.zeros(3)
    n = np.asarray(normal, float)
    n = n / np.linalg.norm(n)
    tot = 0.0
    for i in range(1, len(W) - 1):
        a, b, c = W[0], W[i], W[i + 1]
        s2 = float(np.dot(np.cross(b - a, c - a), n))
        tot += s2
        acc += s2 * (a + b + c) / 3.0
    if tot == 0:
        return None
    return m + acc / tot


def seg_dist(p, a, b):
    ab = b - a
    t = float(np.dot(p - a, ab) / max(float(np.dot(ab, ab)), 1e-300))
    t = min(1.0, max(0.0, t))
    return float(np.linalg.norm(p - (a + t * ab)))


def fit_sphere(V):
    """Least-squares sphere / circle through points (centred, scaled); returns
    (centre, radius, max relative deviation)."""
    V = np.asarray(V, float)
    m = V.mean(axis=0)
    s = float(np.max(np.linalg.norm(V - m, axis=1))) or 1.0
    W = (V - m) / s
    # in-plane coordinates for coplanar input
    U, S, Vt = np.linalg.svd(W - W.mean(axis=0), full_matrices=False)
    rank = int(np.sum(S > 1e-9 * max(S[0], 1e-300)))
    B = Vt[:rank]
    X = W @ B.T
    A = np.hstack([2 * X, np.ones((len(X), 1))])
    b = np.sum(X * X, axis=1)
    sol, *_ = np.linalg.lstsq(A, b, rcond=None)
    c = sol[:rank]
    r2 = sol[rank] + float(np.dot(c, c))
    if r2 <= 0:
        return None, None, np.inf
    r = float(np.sqrt(r2))
    dev = float(np.max(np.abs(np.linalg.norm(X - c, axis=1) - r))) / r
    centre = m + s * (c @ B)
    return centre, s * r, dev


def fit_inball(planes):
    """Least-squares point equidistant (signed, inside) from all planes:
    n_i.C + r = d_i.  Returns (C, r, max relative deviation)."""
    N = np.array([p[0] for p in planes])
    d = np.array([p[1] for p in planes])
    A = np.hstack([N, np.ones((len(N), 1))])
    sol, *_ = np.linalg.lstsq(A, d, rcond=None)
    C, r = sol[:-1], float(sol[-1])
    if r <= 0:
        return C, r, np.inf
    dev = float(np.max(np.abs(d - N @ C - r))) / r
    return C, r, dev


def _v(res, si, cls, ball, what, detail, reg=None):
    res["violations"].append(violation(PROP, "definition", "%s: %s" % (ball, detail), si,
                                       cls=cls, ball=ball, what=what, regime=reg))


def check_definitions(shape, res, si, scribble=False):
    """Append a violation for every ball of the shape that contradicts its definition.
    ``scribble``: every ball read is edited by the caller right after it was judged."""
    _SCRIBBLE[0] = bool(scribble)
    try:
        return _check_definitions(shape, res, si)
    finally:
        _SCRIBBLE[0] = False


def _check_definitions(shape, res, si):
    C = res["counters"]
    cls = type(shape).__name__
    C["definition_states"] += 1
    if cls in CURVED_CLASSES:
        return _check_curved(shape, res, si, cls)
    if cls not in VERTEX_CLASSES:
        return
    three = cls.endswith("hedron")
    sfx = "sphere" if three else "circle"
    V = np.array(shape.vertices, dtype=float)
    st, c0 = _read(shape, "centroid")
    if st != "ok" or not np.all(np.isfinite(V)):
        return
    c0 = np.array(c0, dtype=float)
    ext = float(np.max(np.linalg.norm(V - V.mean(axis=0), axis=1)))
    L = ext + float(np.linalg.norm(c0))
    reg = regime(ext)
    faces = [[int(i) for i in f] for f in shape.faces] if three else None
    if three:
        planes = face_planes(V, faces)
    else:
        n = np.array(shape.normal, dtype=float)
        n = n / np.linalg.norm(n)
        planes = None
    convex = cls.startswith("Convex")
    # "the centroid" is the centroid of the region, computed here from the defining geometry;
    # the object's own report is used only when the two agree (and flagged when they do not)
    ct = true_centroid(V, faces, None if three else n)
    if ct is not None and np.linalg.norm(ct - c0) > 1e-7 * L:
        _v(res, si, cls, "centroid", "centred-balls-not-about-the-centroid",
           "the object reports its centroid at %s, the region's centroid is %s: the centred "
           "balls cannot be centred at the centroid" % (c0.tolist(), ct.tolist()))
        return

    # ---- minimal centred bounding ball
    for name in ("minimal_centered_bounding_" + sfx,):
        st, val = _read(shape, name)
        if st == "ok":
            C["def_checked:" + name] += 1
            c, r = _ball(val)
            want = float(np.max(np.linalg.norm(V - c0, axis=1)))
            if np.linalg.norm(c - c0) > 1e-9 * L:
                _v(res, si, cls, name, "not-centred-at-centroid",
                   "centre %s, centroid %s" % (c.tolist(), c0.tolist()))
            elif abs(r - want) > 1e-9 * want:
                _v(res, si, cls, name, "radius-not-largest-vertex-distance",
                   "radius %r, largest centroid-vertex distance %r" % (r, want))
            st2, r2 = _read(shape, name + "_radius")
            if st2 == "ok" and abs(float(r2) - r) > 1e-12 * max(r, 1e-300):
                _v(res, si, cls, name + "_radius", "radius-getter-differs",
                   "%r vs ball radius %r" % (float(r2), r))
        elif st in ("rt", "exc"):
            _v(res, si, cls, name, "raised", "%s: %s" % (type(val).__name__, val))

    # ---- maximal centred bounded ball (convex classes)
    name = "maximal_centered_bounded_" + sfx
    st, val = _read(shape, name)
    if st == "ok" and convex:
        C["def_checked:" + name] += 1
        c, r = _ball(val)
        if three and planes:
            want = min(float(d - np.dot(nn, c0)) for nn, d in planes)
        else:
            want = min(seg_dist(c0, V[i], V[(i + 1) % len(V)]) for i in range(len(V)))
        if np.linalg.norm(c - c0) > 1e-9 * L:
            _v(res, si, cls, name, "not-centred-at-centroid",
               "centre %s, centroid %s" % (c.tolist(), c0.tolist()))
        elif want > 0 and abs(r - want) > 1e-7 * want + 1e-13 * L:
            _v(res, si, cls, name, "not-touching-nearest-face" if r < want else "pokes-out",
               "radius %r, distance from the centroid to the nearest face/edge %r" % (r, want))
        st2, r2 = _read(shape, name + "_radius")
        if st2 == "ok" and abs(float(r2) - r) > 1e-12 * max(r, 1e-300):
            _v(res, si, cls, name + "_radius", "radius-getter-differs",
               "%r vs ball radius %r" % (float(r2), r))
    elif st in ("rt", "exc") and convex:
        _v(res, si, cls, name, "raised", "%s: %s" % (type(val).__name__, val))

    # ---- deprecated spellings forward to the balls above and must give the same ball
    for old_name, new_name in (("incircle_from_center", "maximal_centered_bounded_circle"),
                               ("insphere_from_center", "maximal_centered_bounded_sphere"),
                               ("circumsphere_from_center", "minimal_centered_bounding_sphere")):
        sto, vo = _read(shape, old_name)
        stn, vn = _read(shape, new_name)
        if sto == "ok" and stn == "ok":
            C["def_checked:" + old_name] += 1
            co, ro = _ball(vo)
            cn, rn = _ball(vn)
            if abs(ro - rn) > 1e-12 * max(rn, 1e-300) or np.linalg.norm(co - cn) > 1e-12 * L:
                _v(res, si, cls, old_name, "deprecated-name-differs",
                   "(%s, %r) but %s gives (%s, %r)" % (co.tolist(), ro, new_name, cn.tolist(),
                                                       rn))

    # ---- circumscribed ball
    name = "circum" + sfx
    st, val = _read(shape, name)
    if st in ("ok", "rt"):
        fc, fr, fdev = fit_sphere(V)
        if st == "ok":
            C["def_checked:" + name] += 1
            c, r = _ball(val)
            dev = float(np.max(np.abs(np.linalg.norm(V - c, axis=1) - r))) / max(r, 1e-300) \
                if r > 0 and np.all(np.isfinite(c)) else np.inf
            if dev > ACCEPT_DEV:
                # coxeter accepted a ball that misses vertices by more than 1 % of its radius
                _v(res, si, cls, name, "does-not-pass-through-every-vertex",
                   "a vertex is %.3g radii off the returned ball (best possible fit: %.3g)" % (
                       dev, fdev), reg)
            if not three and abs(float(np.dot(c - V[0], n))) > 1e-7 * max(r, 1e-300):
                _v(res, si, cls, name, "centre-off-plane", "centre %s" % c.tolist())
            st2, r2 = _read(shape, name + "_radius")
            if st2 == "ok" and abs(float(r2) - r) > 1e-12 * max(r, 1e-300):
                _v(res, si, cls, name + "_radius", "radius-getter-differs",
                   "%r vs ball radius %r" % (float(r2), r))
        else:
            C["def_refused:" + name] += 1
            if fdev < 1e-12:
                _v(res, si, cls, name, "exists-but-refused",
                   "RuntimeError although every vertex lies within %.1e radii of a common "
                   "sphere" % fdev, reg)
    elif st == "exc":
        _v(res, si, cls, name, "raised", "%s: %s" % (type(val).__name__, val))

    # ---- inscribed ball
    name = "in" + sfx
    st, val = _read(shape, name)
    if st in ("ok", "rt"):
        if three:
            pl = planes
        else:
            # edge lines in the polygon's plane; outward in-plane normals need the winding
            a2 = _newell(V - V.mean(axis=0))
            sgn = 1.0 if float(np.dot(a2, n)) >= 0 else -1.0
            pl = []
            for i in range(len(V)):
                a, b = V[i], V[(i + 1) % len(V)]
                e = b - a
                out_n = np.cross(e, n) * sgn
                ln = float(np.linalg.norm(out_n))
                if ln == 0:
                    pl = None
                    break
                out_n /= ln
                pl.append((out_n, float(np.dot(out_n, a))))
        if pl:
            fC, fr_, fdev = fit_inball(pl)
            if st == "ok":
                C["def_checked:" + name] += 1
                c, r = _ball(val)
                if r > 0 and np.all(np.isfinite(c)):
                    d = np.array([dd - float(np.dot(nn, c)) for nn, dd in pl])
                    dev = float(np.max(np.abs(d - r))) / r
                else:
                    dev = np.inf
                if not three and r > 0 and np.all(np.isfinite(c)) and \
                        abs(float(np.dot(c - V[0], n))) > 1e-7 * r:
                    _v(res, si, cls, name, "centre-off-plane",
                       "centre %s is %.3g radii off the polygon's plane" % (
                           c.tolist(), abs(float(np.dot(c - V[0], n))) / r))
                if dev > ACCEPT_DEV:
                    _v(res, si, cls, name, "not-tangent-to-every-face",
                       "a face/edge is %.3g radii off tangency (best possible fit: %.3g)" % (
                           dev, fdev), reg)
                st2, r2 = _read(shape, name + "_radius")
                if st2 == "ok" and abs(float(r2) - r) > 1e-12 * max(abs(r), 1e-300):
                    _v(res, si, cls, name + "_radius", "radius-getter-differs",
                       "%r vs ball radius %r" % (float(r2), r))
            else:
                C["def_refused:" + name] += 1
                if fdev < 1e-12 and convex:
                    _v(res, si, cls, name, "exists-but-refused",
                       "RuntimeError although a ball tangent to every face exists (deviation "
                       "%.1e radii)" % fdev, reg)
    elif st == "exc":
        _v(res, si, cls, name, "raised", "%s: %s" % (type(val).__name__, val))


def _check_curved(shape, res, si, cls):
    C = res["counters"]
    st, c0 = _read(shape, "centroid")
    if st != "ok":
        return
    c0 = np.array(c0, dtype=float)
    if cls in ("Circle", "Sphere"):
        axes = [float(shape.radius)]
    elif cls == "Ellipse":
        axes = [float(shape.a), float(shape.b)]
    else:
        axes = [float(shape.a), float(shape.b), float(shape.c)]
    if not np.all(np.isfinite(axes)) or min(axes) <= 0:
        return
    sfx = "sphere" if cls in ("Sphere", "Ellipsoid") else "circle"
    big, small = max(axes), min(axes)
    L = big + float(np.linalg.norm(c0))
    table = [("minimal_bounding_" + sfx, big), ("minimal_centered_bounding_" + sfx, big),
             ("maximal_bounded_" + sfx, small), ("maximal_centered_bounded_" + sfx, small)]
    for name, want in table:
        st, val = _read(shape, name)
        if st == "ok":
            C["def_checked:" + name] += 1
            try:
                c, r = _ball(val)
            except Exception as e:  # noqa: BLE001
                _v(res, si, cls, name, "not-a-ball", repr(val))
                continue
            if np.linalg.norm(c - c0) > 1e-12 * L:
                _v(res, si, cls, name, "not-centred", "centre %s, shape centre %s" % (
                    c.tolist(), c0.tolist()))
            elif abs(r - want) > 1e-12 * want:
                _v(res, si, cls, name, "wrong-semi-axis",
                   "radius %r, expected the %s semi-axis %r of %s" % (
                       r, "largest" if want == big else "smallest", want, axes))
            st2, r2 = _read(shape, name + "_radius")
            if st2 == "ok" and abs(float(r2) - r) > 1e-12 * r:
                _v(res, si, cls, name + "_radius", "radius-getter-differs",
                   "%r vs ball radius %r" % (float(r2), r))
        elif st in ("rt", "exc"):
            _v(res, si, cls, name, "raised", "%s: %s" % (type(val).__name__, val))
