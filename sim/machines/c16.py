"""C16 - queries are free of side effects.

System: one live object of each of the ten classes, away from the origin.
Operations: every public property getter and query method found by reflection,
exports on the simulated filesystem.  Faults: I/O faults during exports, solver
faults during minimal_bounding_*, RNG reseeded between repeats, malformed
arguments.  Observation without perturbation: the public observables are read
from a deep copy of the object, so that the check's own reads can neither mask
nor cause a side effect on the object under test.
"""

import copy
import pathlib
import warnings
from collections import Counter

import numpy as np

from .. import gen, history, observe
from ..engine import raise_site, violation
from ..rng import Stream
from .c03 import _solver_skip

PROP = "C16"
CLASSES = ["ConvexPolyhedron", "Polyhedron", "ConvexSpheropolyhedron", "Polygon",
           "ConvexPolygon", "ConvexSpheropolygon", "Circle", "Ellipse", "Sphere", "Ellipsoid"]
TIERS = {
    "quick": {"runs": 4800, "chunk": 10, "shrink_cap_s": 60, "max_minimised": 10},
    "thorough": {"budget_s": 1200, "chunk": 10, "shrink_cap_s": 180, "max_minimised": 20},
    "run_cap_s": 180,
}
RULE = ("One run = one live object of one of the ten classes in general position away from the "
        "origin, queried 2-16 times with operations from the reflected query alphabet (every "
        "public property getter incl. deprecated aliases, is_inside with (3,), (N,3), (N,2) and "
        "list arguments, compute_form_factor_amplitude, distance_to_surface, get_face_area, "
        "get_dihedral, to_json, to_hoomd, repr/str, save and coxeter.io.to_* on the simulated "
        "filesystem), with malformed arguments, I/O faults inside exports, solver faults inside "
        "minimal_bounding_* and a different RNG seed for every repeat; half of the runs start "
        "with a hand-out prefix (getters returning arrays) and 25% interleave mutators, after "
        "which the reference snapshot starts afresh and handed-out arrays are re-frozen. Stratified prefix: run "
        "index i < sum(|alphabet(cls)|) fixes the first query (quick), i < sum(|alphabet|^2) the "
        "first ordered pair (thorough). After every step: observables (read from a deep copy) "
        "unchanged since the start, caller arrays bit-for-bit unchanged, every array handed out "
        "earlier unchanged, repeat returns the same answer, and the answer equals the one a "
        "never-queried deep copy of the shape gives (history-independence); when the defining "
        "geometry is bit-for-bit unchanged every observable must be bit-for-bit unchanged; 35% "
        "of the runs keep a second live shape of the same class that is asked first. Non-trivial = at least one query "
        "returned a value; distinct = distinct sha256 digests of the event log.")
ASSUMPTIONS = [
    "'Unchanged' = geometry within 1e-12 of the largest coordinate per operation, every other observable "
    "within rtol 1e-11 (the last-digit rounding the property allows for operations that move "
    "the shape and move it back); argument arrays bitwise.",
    "Observables are read from copy.deepcopy(obj): the deep copy preserves all state an "
    "observable can depend on (instance dict incl. memoised properties).",
    "Repeat-query equality: exact categories rtol 1e-9; solver-based balls 1e-6 and skipped "
    "when any participating raw solver output fails its certificate (C13 attribution).",
    "plot runs in both tiers (Agg backend), to_plato_scene in the thorough tier only; keyword "
    "parameters with a boolean default (found by reflection: plot(center=, plot_verts=, "
    "label_verts=) and any option added later to a query or exporter) are flipped to True in "
    "half of the calls that have them.",
]
IO_FORMATS = ["OBJ", "OFF", "STL", "PLY", "VTK", "X3D", "HTML"]
FS_FAULTS = [("open", "eacces"), ("write", "enospc"), ("write", "short"), ("close", "eio"),
             ("write", "eio"), ("remove", "eacces"), ("read", "eio")]


# --------------------------------------------------------------------------
# query alphabet by reflection
# --------------------------------------------------------------------------
def alphabet(cls_name, tier="quick"):
    import coxeter.shapes as S

    cls = getattr(S, cls_name)
    props, settable, methods = observe.members(cls)
    A = [("get", p, "") for p in props]
    A += [("call", "repr", ""), ("call", "str", "")]
    for m in methods:
        if m in observe.MUTATOR_METHODS:
            continue
        if m == "is_inside":
            A += [("call", m, v) for v in ("single", "batch", "list", "bad_width")]
            if cls_name in ("Polygon", "ConvexPolygon", "Circle", "Ellipse"):
                A.append(("call", m, "batch2"))
        elif m == "compute_form_factor_amplitude":
            A += [("call", m, v) for v in ("q", "q_density", "q_single", "q_1d", "q_list")]
        elif m == "distance_to_surface":
            A += [("call", m, "angles"), ("call", m, "angles_wide")]
        elif m == "get_face_area":
            A += [("call", m, v) for v in ("none", "int", "list", "array", "out_of_range")]
        elif m == "get_dihedral":
            A += [("call", m, "neighbours"), ("call", m, "non_neighbours")]
        elif m == "to_json":
            A += [("call", m, "valid"), ("call", m, "unknown_attr")]
        elif m == "save":
            A += [("call", m, f) for f in IO_FORMATS] + [("call", m, "UNKNOWN")]
        elif m == "plot":
            A.append(("call", m, ""))  # Agg backend; ~10 ms
        elif m == "to_plato_scene":
            if tier == "thorough":
                A.append(("call", m, ""))
        else:
            A.append(("call", m, ""))  # to_hoomd and any zero-argument method added later
    if "save" in methods:
        A += [("io", "to_" + f.lower(), "") for f in IO_FORMATS]
    return A


def bool_flags(fn):
    """Names of the keyword parameters of a callable whose default is a bool: the
    non-default spellings of a query are queries too (found by reflection, so an option
    added later is exercised as well)."""
    import inspect

    try:
        sig = inspect.signature(fn)
    except (TypeError, ValueError):
        return []
    return sorted(p.name for p in sig.parameters.values()
                  if isinstance(p.default, bool) and p.kind in (p.POSITIONAL_OR_KEYWORD,
                                                                p.KEYWORD_ONLY))


_FLAGS = {}


def _flags_of(cls_name, kind, name):
    k = (cls_name, kind, name)
    if k not in _FLAGS:
        import coxeter.shapes as S
        from coxeter import io as cio

        if kind == "io":
            fn = getattr(cio, name, None)
        elif kind == "call" and name not in ("repr", "str"):
            fn = getattr(getattr(S, cls_name), name, None)
        else:
            fn = None
        _FLAGS[k] = bool_flags(fn) if callable(fn) else []
    return _FLAGS[k]


_ALPHA = {}


def _alpha(cls, tier):
    k = (cls, tier)
    if k not in _ALPHA:
        _ALPHA[k] = alphabet(cls, tier)
    return _ALPHA[k]


_ARR = {}


def _canonical_base(cls):
    """A fixed base shape per class (the cache below must not depend on which run a
    worker process happened to see first)."""
    cube = (np.array(gen.cube(), float) * [1.0, 1.5, 2.0] + [3.0, 2.0, 1.0]).tolist()
    square = [[3.0, 1.0, 0.0], [1.0, 1.0, 0.0], [1.0, -1.0, 0.0], [3.0, -1.0, 0.0]]
    if cls in ("ConvexPolyhedron", "ConvexSpheropolyhedron"):
        return {"cls": cls, "vertices": cube, "radius": 0.5}
    if cls == "Polyhedron":
        return {"cls": cls, "vertices": cube, "faces": gen.hull_faces(cube),
                "faces_are_convex": True}
    if cls in gen.VERTEX2D:
        return {"cls": cls, "vertices": square, "normal": None, "radius": 0.5}
    return {"cls": cls, "radius": 1.0, "a": 1.0, "b": 2.0, "c": 3.0, "center": [1.0, 2.0, 0.0]}


def _array_getters(cls, base=None):
    """Properties of the class whose value contains an ndarray (found by reading
    them once on a fixed canonical shape of the class)."""
    if cls in _ARR:
        return _ARR[cls]
    out = []
    try:
        obj = gen.build(_canonical_base(cls))
        props, _, _ = observe.members(type(obj))
        for p in props:
            if p in observe.DEPRECATED:
                continue
            try:
                with warnings.catch_warnings():
                    warnings.simplefilter("ignore")
                    found = []
                    arrays_in(getattr(obj, p), found)
                if found:
                    out.append(p)
            except Exception:  # noqa: BLE001
                pass
    except Exception:  # noqa: BLE001
        pass
    _ARR[cls] = out
    return out


def _mk_step(rng, q, fault_rate, cls=None):
    kind, name, variant = q
    st = {"op": kind, "name": name, "variant": variant, "arg_seed": rng.u32(),
          "pyseed": rng.u32(), "npseed": rng.u32(), "repeat": rng.chance(0.5)}
    fl = _flags_of(cls, kind, name) if cls else []
    if fl and rng.chance(0.5):
        st["flags"] = {f: True for f in fl if rng.chance(0.6)} or {fl[0]: True}
    if (kind == "io" or name == "save") and rng.chance(fault_rate):
        on, fk = rng.choice(FS_FAULTS)
        st["fs_faults"] = [{"on": on, "nth": rng.choice([0, 0, 1, 2]), "kind": fk, "frac": 0.5}]
    if "minimal_bounding" in name and rng.chance(fault_rate):
        st["solver_script"] = [True] * rng.choice([1, 2, 3, 9, 10])
    return st


def gen_spec(seed, index, tier):
    rng = Stream(seed, "c16")
    sizes = [len(_alpha(c, tier)) for c in CLASSES]
    forced = None
    if tier == "quick":
        acc = 0
        for c, n in zip(CLASSES, sizes):
            if index < acc + n:
                forced = (c, [index - acc])
                break
            acc += n
    else:
        acc = 0
        for c, n in zip(CLASSES, sizes):
            if index < acc + n * n:
                k = index - acc
                forced = (c, [k % n, k // n])
                break
            acc += n * n
    cls = forced[0] if forced else CLASSES[index % len(CLASSES)]
    shape_rng = rng.sub("shape")
    base = None
    for _ in range(30):
        if cls in gen.CURVED:
            cand = gen.gen_base(shape_rng, cls)
        else:
            lo = -0.3 if cls == "Polyhedron" else -1.5
            kw = {}
            sc = 10 ** shape_rng.uniform(lo, 1.6)
            if cls in ("ConvexPolyhedron", "ConvexSpheropolyhedron"):
                r = shape_rng.random()
                if r < 0.10:
                    # the hull-based classes use no vendored helper with absolute
                    # tolerances: some runs live at very small sizes (down to where the
                    # whole shape, centre included, is within 1e-8 of the origin)
                    sc = 10 ** shape_rng.uniform(-10, -4)
                elif r < 0.20:
                    # almost axis-aligned: coordinates about the centre tiny but not zero
                    kw = {"rotate": False, "noise": 10 ** shape_rng.uniform(-10, -7.5)}
            if cls == "Polyhedron" and shape_rng.chance(0.08):
                # a polyhedron with a non-convex face: volume, centroid, to_hoomd raise -
                # a query that raises must leave the shape as it was, too
                kw["allow_invalid_faces"] = True
                kw["family"] = "l_prism_nonconvex"
            cand = gen.gen_base(shape_rng, cls, scale=sc,
                                offset_diam=shape_rng.choice([1.0, 1.0, 3.0, 10.0]), **kw)
        try:
            gen.build(cand)
            base = cand
            break
        except Exception:  # noqa: BLE001
            continue
    ops = rng.sub("ops")
    A = _alpha(cls, tier)
    n = ops.randint(2, 8 if tier == "quick" else 16)
    # calls (which may move the shape and move it back) weigh twice a plain getter
    W = [(q, 2.0 if q[0] != "get" else 1.0) for q in A]
    steps = [_mk_step(ops, ops.weighted(W), 0.25, cls) for _ in range(n)]
    if ops.chance(0.5):
        # hand-out prefix: first take references to internal arrays, then query
        arr = _array_getters(cls, base)
        if arr:
            pre = [_mk_step(ops, ("get", ops.choice(arr), ""), 0.0)
                   for _ in range(ops.randint(1, 2))]
            for p in pre:
                p["repeat"] = False
            steps = pre + steps
    if forced:
        for pos, k in enumerate(forced[1]):
            if pos < len(steps):
                steps[pos] = _mk_step(ops, A[k], 0.1, cls)
    if base is not None and ops.chance(0.25):
        # queries on a shape with history: one to three mutators before / between queries;
        # after each one the reference snapshot and the hand-out registry start afresh
        try:
            for m in history.gen_steps(ops.sub("mut"), gen.build(base), ops.randint(1, 3),
                                       ext_range=(0.3 if cls == "Polyhedron" else 1e-2, 300.0)):
                pos = ops.randint(0, len(steps))
                steps.insert(pos, {"op": "mutate", "name": "-", "variant": "", "m": m})
                # read again, after the mutation, what was read before it: a getter that
                # refills a buffer it handed out earlier only shows on the second read
                earlier = [s for s in steps[:pos] if s["op"] == "get"]
                for s in ops.sample(earlier, min(3, len(earlier))):
                    again = dict(s, pyseed=ops.u32(), npseed=ops.u32(), repeat=False)
                    steps.insert(pos + 1, again)
        except Exception:  # noqa: BLE001
            pass
    return {"property": PROP, "index": index, "seed": seed, "base": base, "steps": steps,
            "cfg": {"bufsize": ops.choice([16, 512, 8192]), "chunk": ops.choice([1, 32, 8192]),
                    "bystander": ops.chance(0.35)}}


def sample(spec):
    b = spec.get("base") or {}
    return {"base": {k: b.get(k) for k in ("cls", "family") if k in b},
            "steps": [({k: s[k] for k in ("op", "name", "variant", "flags", "repeat", "fs_faults",
                                          "solver_script") if s.get(k) not in (None, "", [])}
                       if s["op"] != "mutate" else
                       {"op": "mutate", "m": {k: s["m"][k] for k in ("op", "prop", "name", "arg")
                                              if k in s["m"]}}) for s in spec["steps"]]}


# --------------------------------------------------------------------------
# arguments
# --------------------------------------------------------------------------
def _points(obj, rng, n):
    ext = history.extent(obj)
    c = history.anchor(obj)
    return c + np.array([[rng.uniform(-1.5, 1.5) for _ in range(3)] for _ in range(n)]) * ext


def _relayout(a, rng):
    """The caller's array in one of the shapes callers really pass: as is (most often),
    float32, Fortran-ordered, a strided view of a larger array, read-only, or integers when
    the values allow it.  The values are the same; what may differ is whether a conversion
    inside the library copies."""
    r = rng.random()
    if r < 0.72 or not isinstance(a, np.ndarray) or a.dtype != np.float64:
        return a
    if r < 0.78:
        return a.astype(np.float32)
    if r < 0.84 and a.ndim == 2:
        return np.asfortranarray(a)
    if r < 0.90:
        big = np.zeros(tuple(2 * n for n in a.shape), dtype=a.dtype)
        view = big[tuple(slice(None, None, 2) for _ in a.shape)]
        view[...] = a
        return view
    if r < 0.96:
        b = a.copy()
        b.flags.writeable = False
        return b
    return a


def build_call(obj, st):
    """Returns (callable taking no args, list of argument arrays to watch)."""
    name, variant = st["name"], st["variant"]
    rng = Stream(st["arg_seed"], "args")
    kw = dict(st.get("flags") or {})
    if st["op"] == "get":
        return (lambda: getattr(obj, name)), []
    if st["op"] == "io":
        from coxeter import io as cio

        fn = "q_%s.%s" % (name, name[3:])
        path = pathlib.Path(fn) if rng.chance(0.3) else fn
        return (lambda: getattr(cio, name)(obj, path, **kw)), []
    if name == "repr":
        return (lambda: repr(obj)), []
    if name == "str":
        return (lambda: str(obj)), []
    if name == "is_inside":
        if variant == "single":
            p = _points(obj, rng, 1)[0]
        elif variant == "batch":
            p = _relayout(_points(obj, rng, rng.randint(2, 9)), rng)
        elif variant == "batch2":
            p = _points(obj, rng, rng.randint(2, 9))[:, :2].copy()
        elif variant == "list":
            p = _points(obj, rng, 3).tolist()
            return (lambda: obj.is_inside(p, **kw)), [("points(list)", p)]
        else:
            p = np.hstack([_points(obj, rng, 3), np.ones((3, 1))])
        return (lambda: obj.is_inside(p, **kw)), [("points", p)]
    if name == "compute_form_factor_amplitude":
        ext = history.extent(obj)
        q = np.array([[rng.uniform(-2, 2) for _ in range(3)] for _ in range(5)]) / ext
        q[0] = 0.0
        if variant == "q_single":
            q1 = q[1:2].copy()  # one wave vector, shape (1, 3)
            return (lambda: obj.compute_form_factor_amplitude(q1, **kw)), [("q", q1)]
        if variant == "q_1d":
            q1 = q[1].copy()  # shape (3,)
            return (lambda: obj.compute_form_factor_amplitude(q1, **kw)), [("q", q1)]
        if variant == "q_list":
            ql = q.tolist()
            return (lambda: obj.compute_form_factor_amplitude(ql, **kw)), [("q(list)", ql)]
        q = _relayout(q, rng)
        if variant == "q_density":
            return (lambda: obj.compute_form_factor_amplitude(q, density=2.5, **kw)), [("q", q)]
        return (lambda: obj.compute_form_factor_amplitude(q, **kw)), [("q", q)]
    if name == "distance_to_surface":
        if variant == "angles_wide":
            # legal but unusual: negative angles, angles beyond one turn, the end point 2*pi
            a = np.array([rng.uniform(-4 * np.pi, 6 * np.pi) for _ in range(5)] + [2 * np.pi, 0.0])
        else:
            a = np.array([rng.uniform(0, 2 * np.pi) for _ in range(6)])
        a = _relayout(a, rng)
        return (lambda: obj.distance_to_surface(a, **kw)), [("angles", a)]
    if name == "get_face_area":
        nf = len(obj.faces)
        if variant == "none":
            return (lambda: obj.get_face_area()), []
        if variant == "int":
            k = rng.randrange(nf)
            return (lambda: obj.get_face_area(k)), []
        if variant == "list":
            lst = [rng.randrange(nf) for _ in range(3)]
            return (lambda: obj.get_face_area(lst)), [("faces(list)", lst)]
        if variant == "array":
            arr = np.array([rng.randrange(nf) for _ in range(3)])
            return (lambda: obj.get_face_area(arr)), [("faces", arr)]
        bad = [nf + 3]
        return (lambda: obj.get_face_area(bad)), [("faces(list)", bad)]
    if name == "get_dihedral":
        nb = obj.neighbors
        i = rng.randrange(len(nb))
        if variant == "neighbours" and len(nb[i]):
            j = int(nb[i][rng.randrange(len(nb[i]))])
        else:
            non = [j for j in range(len(nb)) if j != i and j not in set(int(x) for x in nb[i])]
            j = rng.choice(non) if non else i
        return (lambda: obj.get_dihedral(i, j)), []
    if name == "to_json":
        props, _, _ = observe.members(type(obj))
        good = [p for p in props if p not in observe.DEPRECATED]
        attrs = rng.sample(good, min(3, len(good)))
        if variant == "unknown_attr":
            attrs.append("no_such_attribute")
        return (lambda: obj.to_json(attrs, **kw)), [("attributes(list)", attrs)]
    if name == "save":
        fn = "q_save.%s" % variant.lower()
        path = pathlib.Path(fn) if rng.chance(0.3) else fn
        return (lambda: obj.save(variant, path, **kw)), []
    if name == "plot":
        def do_plot():
            import matplotlib.pyplot as plt

            try:
                obj.plot(**kw)
            finally:
                plt.close("all")
            return None
        return do_plot, []
    return (lambda: getattr(obj, name)(**kw)), []


def arrays_in(value, out, path="", depth=0):
    """Collect (path, ndarray reference) for every array reachable from a value."""
    if depth > 4:
        return
    if isinstance(value, np.ndarray):
        out.append((path, value))
    elif isinstance(value, dict):
        for k in value:
            arrays_in(value[k], out, "%s[%r]" % (path, k), depth + 1)
    elif isinstance(value, (list, tuple)):
        for i, x in enumerate(value):
            arrays_in(x, out, "%s[%d]" % (path, i), depth + 1)
    elif observe.is_shape(value):
        for attr in ("_centroid", "_vertices"):
            a = getattr(value, attr, None)
            if isinstance(a, np.ndarray):
                out.append((path + "." + attr.strip("_"), a))


def structure(value, depth=0):
    """Shape of a returned container without array contents: keys, lengths, scalars."""
    if depth > 4:
        return "..."
    if isinstance(value, np.ndarray):
        return ("ndarray", value.shape, str(value.dtype))
    if isinstance(value, dict):
        return ("dict", tuple((str(k), structure(value[k], depth + 1)) for k in sorted(
            value, key=str)))
    if isinstance(value, (list, tuple)):
        if len(value) > 64:
            return (type(value).__name__, len(value))
        return (type(value).__name__, tuple(structure(x, depth + 1) for x in value))
    if isinstance(value, (bool, int, str)) or value is None:
        return value
    if isinstance(value, (float, np.floating)):
        return "nan" if value != value else float(value)  # nan must compare equal to itself
    if isinstance(value, (complex, np.complexfloating)):
        return "nan" if value != value else complex(value)
    return type(value).__name__


def _freeze(x):
    if isinstance(x, np.ndarray):
        return x.copy()
    return copy.deepcopy(x)


def _same_arg(a, b):
    if isinstance(a, np.ndarray):
        return isinstance(b, np.ndarray) and a.shape == b.shape and a.dtype == b.dtype and \
            a.tobytes() == b.tobytes()
    return a == b


GEO_ATTRS = {"_vertices", "_centroid", "_radius", "_a", "_b", "_c", "_normal", "_faces"}


class _TracedArray(np.ndarray):
    """ndarray view that reports in-place writes (the tracer below owns the flag)."""
    _flag = None

    def _hit(self):
        if _TracedArray._flag is not None:
            _TracedArray._flag["written"] = True

    def __iadd__(self, o):
        self._hit()
        return np.ndarray.__iadd__(self, o)

    def __isub__(self, o):
        self._hit()
        return np.ndarray.__isub__(self, o)

    def __imul__(self, o):
        self._hit()
        return np.ndarray.__imul__(self, o)

    def __itruediv__(self, o):
        self._hit()
        return np.ndarray.__itruediv__(self, o)

    def __setitem__(self, k, v):
        self._hit()
        return np.ndarray.__setitem__(self, k, v)


def moves_the_shape(world, obj, st):
    """Does this operation *internally move the shape and move it back*?  Decided on a
    throw-away deep copy whose geometry attributes are traced: any assignment to, or
    in-place write into, the stored geometry (of the shape or of its inner core) during the
    call marks the operation as a mover - for those the property allows last-digit
    rounding; for all others it allows nothing."""
    flag = {"written": False}
    try:
        with world.step(0, 3, use_fs=False):
            clone = copy.deepcopy(obj)

        def trace(o):
            for name in ("_vertices", "_centroid"):
                a = o.__dict__.get(name)
                if isinstance(a, np.ndarray) and a.dtype.kind == "f":
                    o.__dict__[name] = a.view(_TracedArray)
            cls = type(o)

            def _setattr(self_, k, v, _cls=cls):
                if k in GEO_ATTRS:
                    flag["written"] = True
                object.__setattr__(self_, k, v)

            o.__class__ = type(cls.__name__, (cls,), {"__setattr__": _setattr})
            for inner in ("_polyhedron", "_polygon"):
                if inner in o.__dict__ and observe.is_shape(o.__dict__[inner]):
                    trace(o.__dict__[inner])

        trace(clone)
        fn, _w = build_call(clone, st)
        _TracedArray._flag = flag
        with world.step(st["pyseed"], st["npseed"], use_fs=True,
                        solver_script=st.get("solver_script")):
            try:
                with warnings.catch_warnings():
                    warnings.simplefilter("ignore")
                    fn()
            except Exception as e:  # noqa: BLE001 - only the writes matter
                if type(e).__name__ == "HarnessTimeout":
                    raise
        world.fs.open_handles.clear()
    except Exception as e:  # noqa: BLE001 - cannot tell: assume it may move (lenient side)
        if type(e).__name__ == "HarnessTimeout":
            raise
        return True
    finally:
        _TracedArray._flag = None
    return bool(flag["written"])


def shaky_observables(world, obj, base, probes):
    """Observables on which two reference models that differ only in the last bits disagree
    among themselves: ill-conditioned in this state (arccos at +-1 between nearly coplanar
    neighbours, borderline existence tests); not evidence of anything."""
    if not hasattr(obj, "vertices"):
        return set()
    try:
        tracked = {"faces_are_convex": (base or {}).get("faces_are_convex", True)}
        with world.step(9, 9, use_fs=False):
            m1 = observe.snapshot(history.fresh(obj, tracked), probes)
            m2 = observe.snapshot(history.jittered(obj, tracked), probes)
        out = {k for k, _w in observe.diff_unchanged(m1, m2, nbase=probes["n_base"])}
    except Exception as e:  # noqa: BLE001 - no model, no excuse
        if type(e).__name__ == "HarnessTimeout":
            raise
        out = set()
    # ... arccos at +-1 has an unbounded derivative: with two neighbouring faces coplanar to
    # within rounding, one ulp in a normal moves the dihedral angle by 1.5e-8, in jumps that a
    # perturbation test may or may not hit - decided analytically
    try:
        core = history.target_of(obj) or obj
        if hasattr(core, "neighbors") and hasattr(core, "normals"):
            nrm = np.asarray(core.normals, float)
            flat = False
            for i, nb in enumerate(core.neighbors):
                for j in nb:
                    if abs(float(np.dot(nrm[i], nrm[int(j)]))) > 1.0 - 1e-12:
                        flat = True
                        break
                if flat:
                    break
            if flat:
                out |= {"mean_curvature", "asphericity", "tau", "get_dihedral"}
                # ... and whether the hull merges such a pair into one face is decided by
                # a tolerance: every recomputation (each mover triggers one) may decide
                # differently, so the face structure itself is borderline in this state
                out |= {"equations", "normals", "faces", "num_faces", "neighbors", "edges",
                        "num_edges", "edge_vectors", "edge_lengths", "face_centroids",
                        "get_face_area", "simplices", "repr", "gsd_shape_spec"}
                if core is not obj:
                    out |= {"volume", "surface_area", "iq", "polyhedron"}
    except Exception as e:  # noqa: BLE001
        if type(e).__name__ == "HarnessTimeout":
            raise
    # ... and exactly the perturbation the property allows: a copy of the object itself moved
    # away and back through the public centroid setter, against an unmoved copy
    try:
        with world.step(9, 9, use_fs=False):
            a = copy.deepcopy(obj)
            b = copy.deepcopy(obj)
            with warnings.catch_warnings():
                warnings.simplefilter("ignore")
                # (a rounded shape is moved through its core: its own setter refuses)
                mv = history.target_of(b) or b
                c = np.array(mv.centroid, dtype=float)
                mv.centroid = c + history.extent(obj) * np.array([1.0, -0.7, 0.4])[:len(c)]
                mv.centroid = c
                # ... and a third copy moved to the origin and back, which is exactly what the
                # library's own movers (to_hoomd) do
                b2 = copy.deepcopy(obj)
                mv2 = history.target_of(b2) or b2
                c2 = np.array(mv2.centroid, dtype=float)
                mv2.centroid = np.zeros_like(c2)
                mv2.centroid = c2
            sa = observe.snapshot(a, probes)
            sb = observe.snapshot(b, probes)
            sb2 = observe.snapshot(b2, probes)
        out |= {k for k, _w in observe.diff_unchanged(sa, sb, nbase=probes["n_base"])}
        out |= {k for k, _w in observe.diff_unchanged(sa, sb2, nbase=probes["n_base"])}
    except Exception as e:  # noqa: BLE001
        if type(e).__name__ == "HarnessTimeout":
            raise
    return out


BORDERLINE_FACES = {"mean_curvature", "asphericity", "tau", "get_dihedral", "equations",
                    "normals", "faces", "num_faces", "neighbors", "edges", "num_edges",
                    "edge_vectors", "edge_lengths", "face_centroids", "get_face_area",
                    "simplices", "repr", "gsd_shape_spec"}


def _flat_in_snapshot(snap):
    """Two neighbouring faces coplanar to within rounding, read off a snapshot."""
    try:
        if snap.get("normals", ("x",))[0] != "ok" or snap.get("neighbors", ("x",))[0] != "ok":
            return False
        nrm = np.asarray(snap["normals"][1], float)
        for i, nb in enumerate(snap["neighbors"][1]):
            for j in np.asarray(nb).astype(int).tolist():
                if abs(float(np.dot(nrm[i], nrm[j]))) > 1.0 - 1e-12:
                    return True
    except Exception:  # noqa: BLE001
        return False
    return False


def _excused(world, obj, base, probes, st, why):
    """A differing answer is excused when the differing part is an observable that is
    ill-conditioned in this state (or depends on one: volume and curvature of a rounded
    shape depend on the core's mean curvature)."""
    shaky = shaky_observables(world, obj, base, probes)
    if not shaky:
        return False
    field = why.split(":")[0].strip().split(".")[-1].split("[")[0].strip("'\" ")
    DEPENDS = {"volume": {"mean_curvature"}, "surface_area": {"mean_curvature"},
               "asphericity": {"mean_curvature"}, "tau": {"mean_curvature"},
               "iq": set()}
    names = {field, st["name"]} | DEPENDS.get(field, set())
    inner = {k.split(".")[-1] for k in shaky}
    return bool(names & (shaky | inner))


def _canon_seeded(world, value, name=None):
    """Canonical form of a returned value (dihedral angles through their cosines, as in the
    snapshots: arccos at +-1 turns an ulp into 1e-8).  A returned *shape* is canonicalised by reading
    its properties, some of which call the solver: both sides of a comparison are read
    under the same RNG seeds (and from a deep copy, so that reading cannot perturb the
    object under test)."""
    with world.step(12, 12, use_fs=False):
        out = observe.canon(copy.deepcopy(value))
    if name == "get_dihedral" and isinstance(out, float):
        out = float(np.cos(out))
    return out


def observe_clone(world, obj, probes):
    with world.step(9, 9, use_fs=False):
        clone = copy.deepcopy(obj)
        snap = observe.snapshot(clone, probes)
    return snap, _solver_skip(world)


def execute(spec, world):
    res = {"violations": [], "counters": Counter(),
           "sets": {"pairs": set(), "queries": set(), "raised": set()}, "nontrivial": False}
    C = res["counters"]
    log = world.log
    base = spec.get("base")
    if base is None:
        C["base_unbuildable"] += 1
        return res
    with world.step(0, 0, use_fs=False):
        try:
            _kept = []
            obj = gen.build(base, keep=_kept)
            # hostile caller: the arrays handed to the constructor are the caller's, and the
            # caller overwrites them right away (the shape must own copies)
            for _a in _kept:
                if _a.dtype.kind == "f":
                    _a += 1.2345 * (1.0 + np.abs(_a))
        except Exception as e:  # noqa: BLE001
            C["base_unbuildable"] += 1
            log.add("base", "unbuildable", type(e).__name__)
            return res
    cls = type(obj).__name__
    probes = observe.build_probes(obj.vertices) if hasattr(obj, "vertices") else \
        observe.build_probes(np.asarray(obj.centroid, float)[None, :]
                             + np.eye(3) * history.extent(obj))
    snap0, skip0 = observe_clone(world, obj, probes)
    snap_prev, skip_prev = snap0, skip0
    L = observe.length_scale(snap0)
    tol_geo = 1e-12 * L
    other = None
    if spec.get("cfg", {}).get("bystander"):
        # a second live shape of the same class, asked the same question first: two objects
        # must not see each other's state (class-level caches, shared default containers)
        with world.step(0, 1, use_fs=False):
            try:
                other = gen.build(gen.sibling(base))
                C["runs_with_bystander"] += 1
            except Exception:  # noqa: BLE001
                other = None
    with world.step(0, 2, use_fs=False):
        pristine = copy.deepcopy(obj)  # never queried: the history-free reference
    registry = []  # (step index, op name, path, reference, frozen copy)
    containers = []  # (step index, op name, reference to a returned dict/list, structure)
    prev = "^"
    bufsize = spec.get("cfg", {}).get("bufsize", 8192)
    chunk = spec.get("cfg", {}).get("chunk")
    k0 = 0  # index of the first step after the last mutation
    for si, st in enumerate(spec["steps"]):
        C["steps"] += 1
        if st["op"] == "mutate":
            r = history.apply(obj, st["m"], world)
            C["mutations_between_queries_" + r["outcome"]] += 1
            log.add("mutate", si, st["m"].get("prop") or st["m"].get("name"), r["outcome"])
            try:
                g = history.geometry(obj)
                usable = all(k == "faces" or np.all(np.isfinite(np.asarray(v, float)))
                             for k, v in g.items())
            except Exception:  # noqa: BLE001
                usable = False
            if usable:
                # queries are judged on coherent states only: a mutator that left the face
                # list and the plane equations with different lengths is C03's business
                try:
                    core = history.target_of(obj) or obj
                    if hasattr(core, "equations") and hasattr(core, "faces") and \
                            len(core.equations) != len(core.faces):
                        usable = False
                        C["state_after_mutation_incoherent"] += 1
                except Exception:  # noqa: BLE001
                    pass
            if not usable:
                C["state_after_mutation_unusable"] += 1
                break
            probes = observe.build_probes(obj.vertices) if hasattr(obj, "vertices") else probes
            snap0, skip0 = observe_clone(world, obj, probes)
            snap_prev, skip_prev = snap0, skip0
            L = observe.length_scale(snap0)
            tol_geo = 1e-12 * L
            # a mutation may legitimately change arrays handed out earlier (they can be the
            # shape's own storage): keep the references, re-freeze their current content -
            # from here on queries must leave them alone again
            with world.step(0, 2, use_fs=False):
                pristine = copy.deepcopy(obj)
            registry = [(si, opn, path, ref, ref.copy()) for _, opn, path, ref, _f in registry]
            containers = [(si, opn, ref, structure(ref)) for _, opn, ref, _s in containers]
            k0 = si + 1
            prev = "mutate"
            continue
        qname = "%s:%s%s" % (st["op"], st["name"], ("/" + st["variant"]) if st["variant"] else "")
        res["sets"]["queries"].add("%s:%s" % (cls, qname))
        res["sets"]["pairs"].add("%s:%s>%s" % (cls, prev, qname))
        prev = qname
        try:
            fn, watched = build_call(obj, st)
        except Exception as e:  # noqa: BLE001 - argument synthesis needs a readable shape
            C["args_unsynthesisable"] += 1
            log.add("step", si, qname, "skipped", type(e).__name__)
            continue
        if other is not None and st["op"] != "io" and st["name"] not in ("save", "plot",
                                                                          "to_plato_scene"):
            try:
                fn_o, _w = build_call(other, st)
                with world.step(st["pyseed"] ^ 0x0B57, st["npseed"] ^ 0x0B57, use_fs=False):
                    with warnings.catch_warnings():
                        warnings.simplefilter("ignore")
                        fn_o()
                C["bystander_queries"] += 1
            except BaseException as e:  # noqa: BLE001 - whatever the bystander answers
                if isinstance(e, (KeyboardInterrupt, SystemExit)) or \
                        type(e).__name__ == "HarnessTimeout":
                    raise
        frozen = [(n, a, _freeze(a)) for n, a in watched]
        outcome, value, exc = "ok", None, None
        with world.step(st["pyseed"], st["npseed"], fs_plan=st.get("fs_faults"),
                        bufsize=bufsize, solver_script=st.get("solver_script"),
                        text_chunk=chunk):
            try:
                with warnings.catch_warnings():
                    warnings.simplefilter("ignore")
                    value = fn()
            except BaseException as e:  # noqa: BLE001
                if isinstance(e, (KeyboardInterrupt, SystemExit)) or \
                        type(e).__name__ == "HarnessTimeout":
                    raise
                outcome, exc = "raised", e
        skip_q = _solver_skip(world)
        used_solver = len(world.solver.attempts) > 0
        world.fs.open_handles.clear()
        log.add("step", si, qname, outcome, type(exc).__name__ if exc else None,
                [list(f) for f in world.fs.plan.fired])
        if outcome == "ok":
            res["nontrivial"] = True
            C["queries_ok"] += 1
        else:
            C["queries_raised"] += 1
            C["fault.query_refused." + type(exc).__name__] += 1
            res["sets"]["raised"].add("%s:%s:%s" % (cls, qname, type(exc).__name__))

        # 2. caller arrays bit-for-bit unchanged
        for n, a, f in frozen:
            if not _same_arg(a, f):
                res["violations"].append(violation(
                    PROP, "argument-mutated", "%s modified its argument %s" % (qname, n), si,
                    cls=cls, op=qname, arg=n))
        if res["violations"]:
            break

        # 3. arrays handed out earlier are not altered
        bad = _registry_check(registry, tol_geo, si)
        if bad:
            k, opn, path, why = bad
            res["violations"].append(violation(
                PROP, "handed-out-array-altered", "%s altered the array returned earlier by %s "
                "(step %d, %s): %s" % (qname, opn, k, path or "value", why), si, cls=cls,
                op=qname, earlier=opn))
            break

        for k, opn, ref, frozen_struct in containers:
            if structure(ref) != frozen_struct:
                res["violations"].append(violation(
                    PROP, "handed-out-container-altered", "%s altered the %s returned earlier "
                    "by %s (step %d): keys/lengths/scalars changed" % (
                        qname, type(ref).__name__, opn, k), si, cls=cls, op=qname, earlier=opn))
                break
        if res["violations"]:
            break

        # 4. repeating the query (different RNG seed) returns the same answer
        #    (done before the observables are read: the repeat is part of this step)
        if outcome == "ok" and st.get("repeat") and st["op"] != "io" and st["name"] not in (
                "save", "plot", "to_plato_scene"):
            try:
                fn2, _ = build_call(obj, st)
                with world.step(st["pyseed"] ^ 0xBEEF, st["npseed"] ^ 0xFACE, use_fs=False):
                    with warnings.catch_warnings():
                        warnings.simplefilter("ignore")
                        value2 = fn2()
                skip_r = _solver_skip(world)
                # solver-based = the solver seam saw a call (also through deprecated aliases
                # such as bounding_sphere, or to_json([... "minimal_bounding_sphere" ...]))
                solverish = used_solver or len(world.solver.attempts) > 0
                if not (solverish and (skip_q or skip_r)):
                    ctx = observe.Ctx(L, 1e-6 if solverish else 1e-9, 1e-12)
                    ctx.nbase = 0
                    # canonical forms are taken from deep copies: reading a returned live
                    # inner shape must not itself perturb the object under test
                    why = observe._cmp_value(st["name"], _canon_seeded(world, value, st["name"]),
                                             _canon_seeded(world, value2, st["name"]), ctx)
                    if why and _excused(world, obj, base, probes, st, why):
                        C["ill_conditioned_skips"] += 1
                        why = None
                    if why:
                        res["violations"].append(violation(
                            PROP, "repeat-differs", "%s returned a different answer when "
                            "repeated: %s" % (qname, why), si, cls=cls, op=qname))
                        break
                C["repeats_compared"] += 1
            except Exception as e:  # noqa: BLE001
                if isinstance(e, RuntimeError) and "nable to solve" in str(e):
                    C["repeat_no_answer"] += 1
                elif type(e).__name__ == "HarnessTimeout":
                    raise
                else:
                    res["violations"].append(violation(
                        PROP, "repeat-differs", "%s returned a value, its repeat raised %s" % (
                            qname, type(e).__name__), si, cls=cls, op=qname,
                        exc=type(e).__name__))
                    break
            bad = _registry_check(registry, tol_geo, si)
            if bad:
                k, opn, path, why = bad
                res["violations"].append(violation(
                    PROP, "handed-out-array-altered", "repeating %s altered the array returned "
                    "earlier by %s (step %d, %s): %s" % (qname, opn, k, path or "value", why),
                    si, cls=cls, op=qname, earlier=opn))
                break

        # 1. observables unchanged since the start (read from a deep copy)
        snap1, skip1 = observe_clone(world, obj, probes)
        d = observe.diff_unchanged(snap_prev, snap1, nbase=probes["n_base"],
                                   skip=skip_prev | skip1 | skip_q,
                                   ops=2 if st.get("repeat") else 1)
        ref_snap = snap_prev
        if not d:
            # drift since the start: one allowance of last-digit rounding per operation
            d = observe.diff_unchanged(snap0, snap1, nbase=probes["n_base"],
                                       skip=skip0 | skip1 | skip_q, ops=si - k0 + 1)
            ref_snap = snap0
        if d and hasattr(obj, "vertices"):
            # an observable that amplifies last-digit noise is not evidence of a side effect
            # (conditioning guard as in C03).  A mover may restore the vertices bit for bit
            # and leave derived stored state an ulp off, so the guard does not look at the
            # geometry; an operation that is *not* a mover is still held to the strict rule
            # below, where nothing is excused.
            shaky = shaky_observables(world, obj, base, probes)
            if _flat_in_snapshot(ref_snap) or _flat_in_snapshot(snap1):
                shaky |= BORDERLINE_FACES
            kept = [x for x in d if x[0] not in shaky]
            C["ill_conditioned_skips"] += len(d) - len(kept)
            d = kept
        strict = None
        if not d and observe.geometry_bitwise_same(snap_prev, snap1):
            # the property allows last-digit rounding "for operations that internally move
            # the shape and move it back"; this one left the defining geometry bit-for-bit
            # alone, so nothing else may differ either (observables are deterministic
            # functions of the state: same deep copy, same RNG seeds)
            C["strict_comparisons"] += 1
            strict = observe.diff_exact(snap_prev, snap1, skip=skip_prev | skip1 | skip_q)
        snap_prev, skip_prev = snap1, skip1
        if d:
            res["violations"].append(violation(
                PROP, "observable-changed", "after %s (%s), %s: %s" % (
                    qname, outcome, d[0][0], d[0][1]), si, cls=cls, op=qname, obs=d[0][0]))
            break
        if strict and moves_the_shape(world, obj, st):
            # geometry restored bit for bit, other stored state only to the last digit:
            # allowed for an operation that moves the shape and moves it back
            C["strict_differences_excused_for_movers"] += 1
            strict = None
        if strict:
            res["violations"].append(violation(
                PROP, "observable-changed", "after %s (%s) the defining geometry is bit-for-bit "
                "unchanged but %s is %s" % (qname, outcome, strict[0][0], strict[0][1]), si,
                cls=cls, op=qname, obs=strict[0][0], what="exact"))
            break

        # 5. the answer does not depend on the query history: a never-queried copy of the
        #    shape (same state, same arguments, same seeds) gives the same answer
        # (texts such as repr print every digit: they are compared only while no earlier
        #  query has moved the shape and moved it back)
        textual = st["name"] in ("repr", "str")
        if outcome == "ok" and st["op"] != "io" and st["name"] not in (
                "save", "plot", "to_plato_scene") and not (
                textual and not observe.geometry_bitwise_same(snap0, snap1)):
            try:
                with world.step(0, 2, use_fs=False):
                    clone = copy.deepcopy(pristine)
                fn3, _ = build_call(clone, st)
                with world.step(st["pyseed"], st["npseed"], use_fs=False,
                                solver_script=st.get("solver_script")):
                    with warnings.catch_warnings():
                        warnings.simplefilter("ignore")
                        value3 = fn3()
                skip_h = _solver_skip(world)
                solverish = used_solver or len(world.solver.attempts) > 0
                if not (solverish and (skip_q or skip_h)):
                    ctx = observe.Ctx(L, 1e-6 if solverish else 1e-9, 1e-12)
                    ctx.nbase = 0
                    why = observe._cmp_value(st["name"], _canon_seeded(world, value, st["name"]),
                                             _canon_seeded(world, value3, st["name"]), ctx)
                    if why and _excused(world, obj, base, probes, st, why):
                        C["ill_conditioned_skips"] += 1
                        why = None
                    if why:
                        res["violations"].append(violation(
                            PROP, "history-dependent-answer", "%s answered differently from a "
                            "never-queried copy of the same shape: %s" % (qname, why), si,
                            cls=cls, op=qname))
                        break
                C["history_free_comparisons"] += 1
            except Exception as e:  # noqa: BLE001
                if type(e).__name__ == "HarnessTimeout":
                    raise
                if isinstance(e, RuntimeError) and "nable to solve" in str(e):
                    C["history_free_no_answer"] += 1
                else:
                    res["violations"].append(violation(
                        PROP, "history-dependent-answer", "%s returned a value, the same query "
                        "on a never-queried copy raised %s" % (qname, type(e).__name__), si,
                        cls=cls, op=qname, exc=type(e).__name__))
                    break

        # register what this step handed out
        if outcome == "ok":
            found = []
            arrays_in(value, found)
            for path, ref in found[:40]:
                registry.append((si, qname, path, ref, ref.copy()))
            C["handed_out_arrays"] += len(found[:40])
            if isinstance(value, (dict, list)):
                containers.append((si, qname, value, structure(value)))
                C["handed_out_containers"] += 1
    return res


def _registry_check(registry, tol, now=None):
    for k, opn, path, ref, frozen in registry:
        if now is not None:
            tol_k = tol * max(1, now - k)
        else:
            tol_k = tol
        if ref.shape != frozen.shape:
            return k, opn, path, "shape changed"
        if ref.dtype.kind in "iub" or frozen.dtype.kind in "iub":
            if not np.array_equal(ref, frozen):
                return k, opn, path, "integer data changed"
            continue
        if ref.dtype.kind not in "fc":
            continue
        with np.errstate(all="ignore"):
            diff = np.abs(ref - frozen)
            m = float(np.nanmax(diff)) if diff.size else 0.0
        if m > tol_k + 1e-11 * float(np.nanmax(np.abs(frozen)) if frozen.size else 0.0):
            return k, opn, path, "max|diff| = %.3g" % m
    return None


# --------------------------------------------------------------------------
# shrinking help
# --------------------------------------------------------------------------
def simplify(spec):
    for i, st in enumerate(spec["steps"]):
        if st.get("repeat"):
            c = copy.deepcopy(spec)
            c["steps"][i]["repeat"] = False
            yield c
    from .c08 import simplify as s8

    for c in s8(spec) if not any(x["op"] == "mutate" for x in spec["steps"]) else []:
        if c.get("base") != spec.get("base"):
            yield c
