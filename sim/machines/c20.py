"""C20 - exported mesh files describe exactly the polyhedron.

System: coxeter.io.to_* and Polyhedron.save on the simulated filesystem.
Faults: failing open, short/interrupted/failing raw writes, full disk, deferred
error on close, failing remove / read (to_html).  Oracle: independent parsers.
"""

import os
import pathlib
from collections import Counter

import numpy as np

from .. import gen, history, observe, parsers
from ..engine import raise_site, violation
from ..rng import Stream

PROP = "C20"
FORMATS = ["OBJ", "OFF", "STL", "PLY", "VTK", "X3D", "HTML"]
EXT = {f: f.lower() for f in FORMATS}
TIERS = {
    "quick": {"runs": 3200, "chunk": 25, "shrink_cap_s": 40, "max_minimised": 8},
    "thorough": {"budget_s": 900, "chunk": 25, "shrink_cap_s": 120, "max_minimised": 16},
    "run_cap_s": 60,
}
RULE = ("One run = one polyhedron (ConvexPolyhedron or Polyhedron; convex, triangulated, "
        "non-convex; coordinates 1e-6..1e6 of either sign, signed-permutation placements that "
        "produce -0.0 and exponent notation) exported 1-6 times through coxeter.io.to_* or "
        "Polyhedron.save to str / pathlib.Path / os.PathLike names on the simulated filesystem, "
        "with 0-2 scripted faults placed inside exports (k-th open/write/close/remove/read of "
        "that export) and a randomised buffer size; a fifth of the runs mutate the polyhedron "
        "(setters, diagonalize_inertia, merge_faces, sort_faces) before and between exports, "
        "after which the oracle re-reads the shape's geometry; files completed by earlier exports "
        "of the run under other names must survive later exports byte for byte; the first 7*2*2 run indices are a "
        "stratified prefix (format x class x faulted). A run is non-trivial if at least one "
        "export completed and was parsed back or at least one fault fired; distinct = distinct "
        "sha256 digests of the full event log (environment calls, byte counts, faults, "
        "verdicts).")
ASSUMPTIONS = [
    "Only the raw file layer is simulated; CPython's buffered/text layers and xml.etree run "
    "for real, so their reaction to short writes, EINTR and errors is the real one.",
    "Fault model: an OSError raised by open/write/close/remove/read surfaces to the caller "
    "unless coxeter swallows it; ENOSPC is sticky for the rest of the export, EIO is one-shot.",
    "Parse-back oracle: parsers written for this purpose from the format descriptions; X3D "
    "element names matched case-insensitively (what x3dom accepts).",
    "What is left on disk after an export that raised is not judged (no atomic-replace "
    "promise in the property).",
]

FS_FAULT_MENU = [
    ("open", "eacces"), ("open", "enoent"), ("open", "emfile"), ("open", "enospc"),
    ("write", "short"), ("write", "short"), ("write", "eintr"), ("write", "enospc"),
    ("write", "eio"), ("close", "eio"), ("remove", "eacces"), ("remove", "enoent"),
    ("read", "eio"), ("read", "short"), ("read", "eintr"),
]


class _PathLike:
    def __init__(self, p):
        self.p = p

    def __fspath__(self):
        return self.p


def _mk_path(name, kind):
    if kind == "Path":
        return pathlib.Path(name)
    if kind == "PathLike":
        return _PathLike(name)
    return name


# --------------------------------------------------------------------------
# generation
# --------------------------------------------------------------------------
def _gen_base(rng):
    cls = rng.choice(["ConvexPolyhedron", "Polyhedron"])
    mode = rng.choice(["generic", "generic", "generic", "signed_perm", "signed_perm", "tiny",
                       "huge", "decimal", "large"])
    if mode == "decimal":
        # axis-aligned box whose coordinates print as one digit times a power of ten
        # (5e-07, -2e-05, 300000.0, 1e+16): exponent notation with a one-digit mantissa
        half = [rng.choice([1, 2, 5]) * 10.0 ** rng.choice([-7, -6, -5, -1, 0, 5, 16])
                for _ in range(3)]
        v0 = gen.box(*half)
        base = {"cls": cls, "family": "decimal_box", "vertices": gen.tolist(v0),
                "placement": mode}
        if cls == "Polyhedron":
            base["faces"] = gen.hull_faces(gen.box(1.0, 1.0, 1.0))
            base["faces_are_convex"] = True
        return base
    if mode == "generic" and rng.chance(0.06):
        # almost axis-aligned hull: facets coplanar only to ~1e-9, which the constructor keeps
        # apart and merge_faces merges - exports before and after the merge (directed below)
        base = gen.gen_base(rng, "ConvexPolyhedron", rotate=False,
                            noise=10 ** rng.uniform(-10, -8), scale=10 ** rng.uniform(-0.3, 1))
        base["placement"] = "noisy"
        return base
    if mode != "decimal" and rng.chance(0.008):
        # more than 1024 triangles in one file (a writer that works in batches)
        n = rng.randint(520, 640)
        v0 = gen.ellipsoid_points_fast(rng, n)
        v, R, sc, off = gen.place3d(v0, rng, scale=10 ** rng.uniform(-1, 1))
        return {"cls": "ConvexPolyhedron", "family": "xlarge", "vertices": gen.tolist(v),
                "placement": "large"}
    if mode == "large":
        # more than 256 lines of vertices + faces in one file
        n = rng.randint(90, 130)
        v0 = gen.prism(n, rng.uniform(0.5, 2.0)) if rng.chance(0.5) else \
            gen.ellipsoid_points_fast(rng, n)
        v, R, sc, off = gen.place3d(v0, rng, scale=10 ** rng.uniform(-1, 1))
        base = {"cls": cls, "family": "large", "vertices": gen.tolist(v), "placement": mode}
        if cls == "Polyhedron":
            base["faces"] = gen.hull_faces(v0)
            base["faces_are_convex"] = True
        return base
    kw = {}
    if mode == "signed_perm":
        kw = dict(rotate=False, scale=rng.choice([1.0, -1.0, 0.5, 1e-5, 3e6]), offset_diam=0.0)
    elif mode == "tiny":
        kw = dict(scale=10 ** rng.uniform(-6, -4))
    elif mode == "huge":
        kw = dict(scale=10 ** rng.uniform(4, 6))
    base = gen.gen_base(rng, cls, **kw)
    base["placement"] = mode
    if mode == "signed_perm":
        v = np.array(base["vertices"])
        perm = [0, 1, 2]
        rng.shuffle(perm)
        R = np.zeros((3, 3))
        for r, c in enumerate(perm):
            R[r, c] = rng.choice([-1.0, 1.0])
        if np.linalg.det(R) < 0:
            R[0] *= -1.0  # proper rotation: face cycles stay outward
        v = v @ R.T
        # drop the centring jitter so exact zeros (and -0.0) survive
        v[np.abs(v) < 1e-12 * np.abs(v).max()] *= 0.0
        base["vertices"] = v.tolist()
    return base


def gen_spec(seed, index, tier):
    rng = Stream(seed, "c20")
    n_strat = len(FORMATS) * 2 * 2
    spec = {"property": PROP, "index": index, "seed": seed}
    base_rng = rng.sub("shape")
    base = None
    for _ in range(20):
        cand = _gen_base(base_rng)
        if _base_ok(cand):
            base = cand
            break
    if base is None:
        base = {"cls": "ConvexPolyhedron", "family": "cube", "vertices": gen.tolist(gen.cube()),
                "placement": "fallback"}
    ops = rng.sub("ops")
    faulty_run = ops.chance(0.6)
    if index < n_strat:
        fmt0 = FORMATS[index % len(FORMATS)]
        base_cls = ["ConvexPolyhedron", "Polyhedron"][(index // len(FORMATS)) % 2]
        faulty_run = bool((index // (2 * len(FORMATS))) % 2)
        if base["cls"] != base_cls:
            for _ in range(50):
                cand = _gen_base(base_rng)
                if cand["cls"] == base_cls and _base_ok(cand):
                    base = cand
                    break
    else:
        fmt0 = None
    spec["base"] = base
    spec["cfg"] = {"bufsize": ops.choice([1, 7, 64, 512, 8192]),
                   "chunk": ops.choice([1, 32, 8192]),
                   "real_disk_compare": (not faulty_run) and ops.chance(0.08),
                   "observe": "light" if base.get("placement") == "large" else
                   ops.choice(["full", "full", "light"])}
    nsteps = ops.randint(1, 6)
    same_path = ops.chance(0.6)
    # a name that says nothing about the format: later exports overwrite files written in
    # another format (and of another length) under the very same name
    one_name = ops.chance(0.1)
    steps = []
    faults_left = ops.choice([1, 1, 2]) if faulty_run else 0
    for k in range(nsteps):
        r = ops.random()
        if r < 0.06:
            steps.append({"op": "save_unknown", "fmt": ops.choice(
                ["obj", "FOO", "", "Stl", "GLTF", "X3d", "html "]), "path": "unk.bin",
                "pathkind": "str", "fs_faults": []})
            continue
        fmt = fmt0 if (k == 0 and fmt0) else ops.choice(FORMATS)
        via = ops.choice(["io", "save", "save"])
        name = ("out.%s" % EXT[fmt]) if same_path else ("f%d.%s" % (k, EXT[fmt]))
        if one_name:
            name = "mesh.dat"
        if ops.chance(0.15):
            name = "sub/" + name  # directory need not exist: SimFS has no directories
            name = name.replace("sub/", "sub_")
        st = {"op": "export", "fmt": fmt, "via": via, "path": name,
              "pathkind": ops.choice(["str", "str", "Path", "PathLike"]), "fs_faults": []}
        if faults_left and (ops.chance(0.5) or k == nsteps - 1 or (k == 0 and fmt0)):
            nf = 1 if faults_left == 1 or ops.chance(0.6) else 2
            for _ in range(nf):
                on, kind = ops.choice(FS_FAULT_MENU)
                if fmt != "HTML" and on in ("remove", "read"):
                    on, kind = ops.choice([("write", "enospc"), ("close", "eio"),
                                           ("write", "short"), ("open", "eacces")])
                e = {"on": on, "nth": ops.choice([0, 0, 0, 1, 1, 2, 3]), "kind": kind}
                if kind in ("short", "enospc"):
                    e["frac"] = ops.choice([0.0, 0.1, 0.5, 0.9])
                st["fs_faults"].append(e)
            faults_left -= nf
        steps.append(st)
    if faulty_run:
        # heal: one more fault-free export to the path of the last faulted export
        last = [s for s in steps if s.get("fs_faults")]
        if last:
            steps.append({"op": "export", "fmt": last[-1]["fmt"], "via": "io",
                          "path": last[-1]["path"], "pathkind": "str", "fs_faults": [],
                          "heal": True})
    for i, st in enumerate(steps):
        st["pyseed"] = ops.u32()
        st["npseed"] = ops.u32()
    spec["steps"] = steps
    if base.get("placement") in ("generic", "signed_perm") and ops.chance(0.06):
        # directed history: two formats to sibling names sharing a stem, the shape
        # changed in between (an exporter must not pick up another export's file)
        f1, f2 = ops.sample(FORMATS, 2)
        if ops.chance(0.5):
            f1, f2 = "X3D", "HTML"
        mk = lambda f, pk: {"op": "export", "fmt": f, "via": ops.choice(["io", "save"]),  # noqa
                            "path": "sib.%s" % EXT[f], "pathkind": pk, "fs_faults": [],
                            "pyseed": ops.u32(), "npseed": ops.u32()}
        spec["steps"] = [mk(f1, "str"),
                         {"op": "mutate", "fmt": "-", "m": {
                             "op": "set", "prop": "volume", "inner": False,
                             "arg": {"kind": "factor", "f": ops.choice([0.5, 2.0, 3.0])},
                             "pyseed": ops.u32(), "npseed": ops.u32()}},
                         mk(f2, ops.choice(["str", "Path"]))] + spec["steps"][:2]
    if base.get("placement") == "noisy":
        # directed history: export, merge the almost-coplanar facets, export again
        f1 = ops.choice(FORMATS)
        mk = lambda f: {"op": "export", "fmt": f, "via": ops.choice(["io", "save"]),  # noqa
                        "path": "noisy.%s" % EXT[f], "pathkind": "str", "fs_faults": [],
                        "pyseed": ops.u32(), "npseed": ops.u32()}
        spec["steps"] = [mk(f1), {"op": "mutate", "fmt": "-", "m": {
            "op": "call", "name": "merge_faces", "kwargs": {}, "inner": False,
            "pyseed": ops.u32(), "npseed": ops.u32()}}, mk("OFF"), mk(ops.choice(FORMATS))]
    # a fifth of the runs export a polyhedron *with history*: mutators before and
    # between the exports (after each one the oracle re-reads the shape's geometry)
    if base.get("placement") in ("generic", "signed_perm") and ops.chance(0.2):
        try:
            obj = gen.build(base)
            ext = history.extent(obj)
            if 0.3 <= ext <= 300 and float(np.max(np.abs(obj.vertices))) < 2500:
                for m in history.gen_steps(ops.sub("mut"), obj, ops.randint(1, 3),
                                           ext_range=(0.3, 300.0)):
                    pos = ops.randint(0, len(spec["steps"]))
                    spec["steps"].insert(pos, {"op": "mutate", "fmt": "-", "m": m})
        except Exception:  # noqa: BLE001
            pass
    return spec


def _base_ok(base):
    """The generator's own sanity check of a base polyhedron (independent of coxeter):
    closed, consistently oriented, positive volume."""
    try:
        v = np.array(base["vertices"], float)
        faces = base.get("faces") or gen.hull_faces(v)
        edges = Counter()
        vol = 0.0
        for f in faces:
            for a, b in zip(f, f[1:] + f[:1]):
                edges[(a, b)] += 1
            for i in range(1, len(f) - 1):
                vol += np.dot(v[f[0]], np.cross(v[f[i]], v[f[i + 1]])) / 6.0
        closed = all(edges.get((b, a), 0) == 1 and c == 1 for (a, b), c in edges.items())
        return bool(closed and vol > 0)
    except Exception:
        return False


def sample(spec):
    return {"base": {k: spec["base"][k] for k in ("cls", "family", "placement") if k in spec["base"]},
            "n_vertices": len(spec["base"]["vertices"]), "cfg": spec["cfg"],
            "steps": [({k: s[k] for k in ("op", "fmt", "via", "path", "pathkind", "fs_faults",
                                          "heal") if k in s} if s["op"] != "mutate" else
                       {"op": "mutate", "m": {k: s["m"][k] for k in ("op", "prop", "name", "arg")
                                              if k in s["m"]}}) for s in spec["steps"]]}


# --------------------------------------------------------------------------
# oracle
# --------------------------------------------------------------------------
def _cyc(coords):
    """Canonical rotation of a cycle of coordinate tuples."""
    k = min(range(len(coords)), key=lambda i: coords[i])
    return tuple(coords[k:] + coords[:k])


def _norm0(t):
    return tuple(0.0 if x == 0 else x for x in t)  # +-0 compare equal, keep exact otherwise


def check_file(fmt, data, verts, faces, cls_name):
    """Judge the bytes of a completed export. Returns list of (rule, what, text)."""
    out = []
    parsed = parsers.PARSERS[fmt](data)
    for code, text in parsed.issues:
        out.append(("wellformed", code, text))
    V = [_norm0(tuple(float(x) for x in row)) for row in verts]
    want_cycles = Counter(_cyc([V[i] for i in f]) for f in faces)
    if fmt == "STL":
        out.extend(_check_stl(parsed, V, faces))
        return out
    got_v = [_norm0(p) for p in parsed.verts]
    if fmt in ("X3D", "HTML"):
        # points are stored per face corner; every point must be an exact vertex
        extra = [p for p in got_v if p not in set(V)]
        if extra:
            out.append(("vertices", "point-not-a-vertex", "%r" % (extra[0],)))
        used = set(got_v)
        missing = [p for p in V if p not in used]
        if missing:
            out.append(("vertices", "vertex-missing", "%r" % (missing[0],)))
    else:
        if Counter(got_v) != Counter(V):
            bad = next((p for p in got_v if p not in set(V)), None)
            out.append(("vertices", "vertex-coordinates-differ",
                        "file has %d vertices, shape %d; first foreign %r" % (
                            len(got_v), len(V), bad)))
    try:
        got_cycles = Counter(_cyc([got_v[i] for i in f]) for f in parsed.faces if f)
    except IndexError:
        got_cycles = None
    if got_cycles is not None and got_cycles != want_cycles:
        rev = Counter(_cyc(list(reversed(c))) for c in got_cycles.elements())
        if rev == want_cycles:
            out.append(("faces", "orientation-reversed", "all face cycles are reversed"))
        elif Counter(frozenset(c) for c in got_cycles.elements()) == Counter(
                frozenset(c) for c in want_cycles.elements()):
            out.append(("faces", "cycle-order-differs", "same vertex sets, different cyclic order"))
        else:
            out.append(("faces", "faces-differ", "file has %d faces, shape %d" % (
                sum(got_cycles.values()), sum(want_cycles.values()))))
    return out


def _check_stl(parsed, V, faces):
    out = []
    Varr = np.array(V)
    vset = {v: i for i, v in enumerate(V)}
    face_sets = [set(f) for f in faces]
    # Newell vector area per face
    newell = []
    for f in faces:
        p = Varr[f]
        n = np.zeros(3)
        for a, b in zip(p, np.roll(p, -1, axis=0)):
            n += np.cross(a, b)
        newell.append(n / 2.0)
    per_face = [np.zeros(3) for _ in faces]
    per_face_abs = [0.0 for _ in faces]
    dir_edges = Counter()
    scale = float(np.max(np.abs(Varr))) or 1.0
    for nrm, corners in parsed.tris:
        cs = [_norm0(c) for c in corners]
        idx = [vset.get(c) for c in cs]
        if None in idx:
            out.append(("vertices", "stl-corner-not-a-vertex", "%r" % (cs[idx.index(None)],)))
            return out
        cand = [k for k, s in enumerate(face_sets) if set(idx) <= s]
        p = Varr[idx]
        avec = np.cross(p[1] - p[0], p[2] - p[0]) / 2.0
        if not cand:
            out.append(("faces", "stl-triangle-not-in-a-face", "%s" % idx))
            return out
        k = max(cand, key=lambda c: float(np.dot(avec, newell[c])) /
                (np.linalg.norm(newell[c]) or 1.0))
        per_face[k] += avec
        per_face_abs[k] += float(np.linalg.norm(avec))
        for a, b in ((idx[0], idx[1]), (idx[1], idx[2]), (idx[2], idx[0])):
            dir_edges[(a, b)] += 1
        n = np.array(nrm)
        an = float(np.linalg.norm(avec))
        if an > 1e-14 * scale * scale:
            if float(np.dot(avec, newell[k])) <= 0:
                out.append(("faces", "stl-triangle-inward", "triangle %s of face %d" % (idx, k)))
            if float(np.linalg.norm(n)) == 0 or float(np.dot(n, avec)) <= 0:
                out.append(("faces", "stl-normal-not-outward",
                            "facet normal %s vs winding normal %s" % (n, avec)))
    for k, f in enumerate(faces):
        an = float(np.linalg.norm(newell[k]))
        if np.linalg.norm(per_face[k] - newell[k]) > 1e-9 * max(an, 1e-300):
            out.append(("faces", "stl-face-area-mismatch", "face %d: triangles sum to %s, "
                        "face vector area %s" % (k, per_face[k], newell[k])))
            break
        if abs(per_face_abs[k] - an) > 1e-9 * max(an, 1e-300):
            out.append(("faces", "stl-face-overlapping-triangles", "face %d" % k))
            break
    bad = [(a, b) for (a, b), c in dir_edges.items() if c != 1 or dir_edges.get((b, a), 0) != 1]
    if bad and not out:
        out.append(("faces", "stl-not-closed-or-inconsistent", "edge %s" % (bad[0],)))
    return out


def _light_state(shape):
    return (np.array(shape.vertices, copy=True), [np.array(f, copy=True) for f in shape.faces])


def _light_same(a, b):
    return (a[0].shape == b[0].shape and np.array_equal(a[0], b[0]) and len(a[1]) == len(b[1])
            and all(np.array_equal(x, y) for x, y in zip(a[1], b[1])))


# --------------------------------------------------------------------------
# execution
# --------------------------------------------------------------------------
def execute(spec, world):
    from coxeter import io as cio

    res = {"violations": [], "counters": Counter(), "sets": {"fmt_x_fault": set(),
                                                              "fmt_x_outcome": set()},
           "nontrivial": False}
    C = res["counters"]
    base = spec["base"]
    cfg = spec["cfg"]
    log = world.log
    with world.step(0, 0, use_fs=False):
        try:
            shape = gen.build(base)
        except Exception as e:  # constructor questions are not C20's
            C["base_unbuildable"] += 1
            log.add("base", "unbuildable", type(e).__name__)
            return res
    cls_name = type(shape).__name__
    probes = observe.build_probes(shape.vertices)
    full = cfg.get("observe", "full") == "full"
    with world.step(1, 1, use_fs=False):
        snap0 = observe.snapshot(shape, probes) if full else None
    light0 = _light_state(shape)
    # oracle data taken once, from the construction-time geometry
    verts = np.array(shape.vertices, copy=True)
    faces = [[int(i) for i in f] for f in shape.faces]
    writers = {f: getattr(cio, "to_" + f.lower(), None) for f in FORMATS}
    # files completed by earlier exports of this run: path -> (bytes, format, step)
    completed = {}

    for si, st in enumerate(spec["steps"]):
        C["steps"] += 1
        fmt = st["fmt"]
        if st["op"] == "mutate":
            r = history.apply(shape, st["m"], world)
            C["mutations_between_exports_" + r["outcome"]] += 1
            log.add("mutate", si, st["m"].get("prop") or st["m"].get("name"), r["outcome"])
            try:
                verts = np.array(shape.vertices, copy=True)
                faces = [[int(i) for i in f] for f in shape.faces]
                usable = bool(np.all(np.isfinite(verts))) and _base_ok(
                    {"vertices": verts.tolist(), "faces": faces})
            except Exception:  # noqa: BLE001
                usable = False
            if not usable:
                C["state_after_mutation_not_exportable"] += 1
                break
            light0 = _light_state(shape)
            probes = observe.build_probes(shape.vertices)
            if full:
                with world.step(1, 1, use_fs=False):
                    snap0 = observe.snapshot(shape, probes)
            continue
        path = _mk_path(st["path"], st.get("pathkind", "str"))
        rel = st["path"]
        before_bytes = bytes(world.fs.files[rel]) if rel in world.fs.files else None
        outcome = None
        exc = None
        with world.step(st["pyseed"], st["npseed"], fs_plan=st.get("fs_faults"),
                        bufsize=cfg["bufsize"], text_chunk=cfg.get("chunk")):
            try:
                if st["op"] == "save_unknown" or st.get("via") == "save":
                    shape.save(fmt, path)
                else:
                    writers[fmt](shape, path)
                outcome = "returned"
            except BaseException as e:  # noqa: BLE001
                if isinstance(e, (KeyboardInterrupt, SystemExit)) or \
                        type(e).__name__ == "HarnessTimeout":
                    raise
                outcome = "raised"
                exc = e
        fired = list(world.fs.plan.fired)
        for call, nth, kind in fired:
            res["sets"]["fmt_x_fault"].add("%s:%s.%s" % (fmt, call, kind))
        log.add("step", si, st["op"], fmt, outcome, type(exc).__name__ if exc else None,
                [list(f) for f in fired])
        res["sets"]["fmt_x_outcome"].add("%s:%s:%s" % (fmt, st.get("via", "-"), outcome))
        C["exports_" + outcome] += 1
        if fired:
            res["nontrivial"] = True
            C["exports_with_fault_fired"] += 1
        C["handles_left_open"] += len(world.fs.open_handles)
        world.fs.open_handles.clear()

        if st["op"] == "save_unknown":
            if outcome != "raised" or not isinstance(exc, ValueError):
                res["violations"].append(violation(
                    PROP, "dispatch", "save(%r) %s" % (fmt, "returned normally" if exc is None
                                                       else "raised " + type(exc).__name__),
                    si, what="unknown-type-not-ValueError", cls=cls_name))
            if world.fs.opens_seen or (rel in world.fs.files and before_bytes is None):
                res["violations"].append(violation(
                    PROP, "dispatch", "save(%r) touched the filesystem" % fmt, si,
                    what="unknown-type-touched-fs", cls=cls_name))
            C["unknown_type_refused"] += 1
            res["nontrivial"] = True
        else:
            # seam bypass guard
            data = None
            stray = world.fs.stray_real_files()
            if outcome == "returned":
                if world.fs.opens_seen == 0 and stray:
                    C["fs_seam_bypassed"] += 1
                    try:
                        with open(os.path.join(world.fs.root, stray[0]), "rb") as f:
                            data = f.read()
                    except OSError:
                        data = None
                    fired = []  # no fault verdict without the seam
                elif rel in world.fs.files:
                    data = bytes(world.fs.files[rel])
                else:
                    data = None
                if data is None:
                    res["violations"].append(violation(
                        PROP, "completion", "export returned normally but no file %r exists"
                        % rel, si, fmt=fmt, what="returned-without-file", cls=cls_name,
                        fault=_fault_tag(fired)))
                else:
                    res["nontrivial"] = True
                    C["files_parsed"] += 1
                    C["bytes_parsed"] += len(data)
                    for rule, what, text in check_file(fmt, data, verts, faces, cls_name):
                        tag = _fault_tag(fired)
                        res["violations"].append(violation(
                            PROP, rule, "%s: %s%s" % (what, text,
                                                      " [after fault %s]" % tag if tag else ""),
                            si, fmt=fmt, what=what,
                            # a fault-free run and a faulted run of the same defect are one
                            # signature unless the fault is what made the data incomplete
                            fault=tag if _is_truncation(what) and tag else None))
                    if st.get("heal"):
                        C["heal_exports_ok"] += 1
            else:
                if not isinstance(exc, OSError):
                    C["raised_non_oserror:" + type(exc).__name__] += 1
                    if not fired:
                        # no fault was injected: the exporter failed by itself
                        res["violations"].append(violation(
                            PROP, "completion", "fault-free export raised %s: %s" % (
                                type(exc).__name__, exc), si, fmt=fmt,
                            what="raises-without-fault", exc=type(exc).__name__,
                            site=raise_site(exc), cls=cls_name))
                elif not fired:
                    res["violations"].append(violation(
                        PROP, "completion", "fault-free export raised %s: %s" % (
                            type(exc).__name__, exc), si, fmt=fmt,
                        what="raises-without-fault", exc=type(exc).__name__,
                        site=raise_site(exc), cls=cls_name))
            # save must reach the same writer as the direct call
            if st.get("via") == "save" and outcome == "returned" and data is not None \
                    and not fired and not world.fs.faults_fired.get("_", 0):
                with world.step(st["pyseed"], st["npseed"], bufsize=8192):
                    try:
                        writers[fmt](shape, "direct.tmp")
                        direct = bytes(world.fs.files.get("direct.tmp", b""))
                    except Exception as e:  # noqa: BLE001
                        direct = None
                    world.fs.files.pop("direct.tmp", None)
                world.fs.open_handles.clear()
                if direct is not None and direct != data:
                    res["violations"].append(violation(
                        PROP, "dispatch", "save(%r) wrote different bytes than io.to_%s" % (
                            fmt, fmt.lower()), si, fmt=fmt, what="save-differs-from-writer"))
                C["save_vs_direct_compared"] += 1
            # stub fidelity: same export to the real disk, same bytes
            if cfg.get("real_disk_compare") and outcome == "returned" and data is not None:
                real = os.path.join(world.fs.root, "..", "real_%d.%s" % (os.getpid(), EXT[fmt]))
                real = os.path.abspath(real)
                try:
                    writers[fmt](shape, real)
                    with open(real, "rb") as f:
                        rb = f.read()
                    C["real_disk_compared"] += 1
                    if rb != data:
                        C["real_disk_mismatch"] += 1
                        log.add("stub-fidelity", "mismatch", fmt)
                finally:
                    if os.path.exists(real):
                        os.remove(real)

        # an export writes its own file: what earlier exports of this run completed under
        # *other* names must still be there, byte for byte (whether or not this one raised)
        for other, (obytes, ofmt, ostep) in sorted(completed.items()):
            if other == rel:
                continue
            now = bytes(world.fs.files[other]) if other in world.fs.files else None
            if now != obytes:
                C["earlier_export_lost"] += 1
                res["violations"].append(violation(
                    PROP, "earlier_export_lost", "the %s file %r completed at step %d %s "
                    "during the %s export to %r (%s)" % (
                        ofmt, other, ostep, "was deleted" if now is None else "was altered",
                        fmt, rel, outcome), si, fmt=fmt, earlier=ofmt,
                    what="deleted" if now is None else "altered"))
                completed.pop(other)
        C["earlier_exports_rechecked"] += len(completed) - (1 if rel in completed else 0)
        if st["op"] == "export":
            if outcome == "returned" and rel in world.fs.files:
                completed[rel] = (bytes(world.fs.files[rel]), fmt, si)
            else:
                completed.pop(rel, None)  # a failed export may leave anything under its own name

        # exporting does not change the shape (whether or not it raised)
        light1 = _light_state(shape)
        if not _light_same(light0, light1):
            res["violations"].append(violation(
                PROP, "shape_changed", "vertices/faces differ bitwise after %s export (%s)" % (
                    fmt, outcome), si, fmt=fmt, what="vertices-or-faces", outcome=outcome))
            break
        if full:
            with world.step(1, 1, use_fs=False):
                snap1 = observe.snapshot(shape, probes)
            # outside coxeter's working window (|coordinate| > 2500) the segment-intersection
            # helper behind Polygon(...) fails chaotically, and the form factor builds a
            # Polygon per face: not an observable there
            fragile = {"form_factor"} if float(np.max(np.abs(verts))) > 2500 else set()
            d = observe.diff_unchanged(snap0, snap1, nbase=probes["n_base"],
                                       skip=set(observe.SOLVER_PROPS) | fragile)
            if d:
                res["violations"].append(violation(
                    PROP, "shape_changed", "%s: %s" % d[0], si, fmt=fmt, what=d[0][0],
                    outcome=outcome))
                break
    return res


_TRUNC = ("not-wellformed", "missing-end", "truncated", "count-mismatch", "missing-endsolid",
          "returned-without-file", "expected-", "arity", "eof")


def _is_truncation(what):
    return any(t in what for t in _TRUNC)


def _fault_tag(fired):
    if not fired:
        return None
    return "+".join(sorted({"%s.%s" % (c, k) for c, _, k in fired}))


# --------------------------------------------------------------------------
# shrinking help
# --------------------------------------------------------------------------
LADDER = [
    {"cls": "ConvexPolyhedron", "family": "tetrahedron",
     "vertices": [[1.0, 1, 1], [1, -1, -1], [-1, 1, -1], [-1, -1, 1]]},
    {"cls": "ConvexPolyhedron", "family": "cube", "vertices": gen.tolist(gen.cube())},
]


def simplify(spec):
    import copy

    # simpler configuration
    for key, val in (("bufsize", 8192), ("chunk", 8192), ("real_disk_compare", False),
                     ("observe", "light")):
        if spec["cfg"].get(key) != val:
            c = copy.deepcopy(spec)
            c["cfg"][key] = val
            yield c
    for i, st in enumerate(spec["steps"]):
        if st.get("pathkind", "str") != "str":
            c = copy.deepcopy(spec)
            c["steps"][i]["pathkind"] = "str"
            yield c
        if st.get("via") == "save":
            c = copy.deepcopy(spec)
            c["steps"][i]["via"] = "io"
            yield c
        for j, e in enumerate(st.get("fs_faults", [])):
            if e.get("nth", 0) > 0:
                c = copy.deepcopy(spec)
                c["steps"][i]["fs_faults"][j]["nth"] = e["nth"] - 1
                yield c
    cur = [i for i, b in enumerate(LADDER) if spec["base"].get("vertices") == b["vertices"]
           and spec["base"]["cls"] == b["cls"]]
    for i, b in enumerate(LADDER if not any(x["op"] == "mutate" for x in spec["steps"]) else []):
        if not cur or i < cur[0]:
            c = copy.deepcopy(spec)
            c["base"] = dict(b, placement="ladder")
            yield c
    # integer-ise the coordinates
    v = np.array(spec["base"]["vertices"])
    r = np.round(v)
    if not cur and not np.array_equal(v, r) and len(np.unique(r, axis=0)) == len(r):
        c = copy.deepcopy(spec)
        c["base"]["vertices"] = r.tolist()
        yield c
