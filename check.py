#!/venv/bin/python
"""Deterministic-simulation checks for glotzerlab/coxeter.

    check.py <PROP> [--tier quick|thorough] [--replay FILE] [--keep-events]
    check.py --selfcheck

Exit 0: the property held on everything explored (KNOWN-FINDING lines allowed).
Exit 1: at least one line "VIOLATION property=<id> replay=<path>".
Exit 2: harness error / timeout (never reported as a pass).
"""

import argparse
import json
import os
import subprocess
import sys
import time

HERE = os.path.dirname(os.path.abspath(__file__))
PINNED_ENV = {
    "PYTHONHASHSEED": "0",
    "OMP_NUM_THREADS": "1",
    "OPENBLAS_NUM_THREADS": "1",
    "MKL_NUM_THREADS": "1",
    "NUMEXPR_NUM_THREADS": "1",
    "MPLBACKEND": "Agg",
    "PYTHONDONTWRITEBYTECODE": "1",
    "PYTHONWARNINGS": "ignore",
}


def reexec_pinned():
    """Fresh interpreter with pinned hash seed / BLAS threads (once)."""
    if os.environ.get("COXETER_VERIF_PINNED") == "1":
        return
    env = dict(os.environ)
    for k, v in PINNED_ENV.items():
        if k == "PYTHONHASHSEED" and "VERIF_HASHSEED" in env:
            env[k] = env["VERIF_HASHSEED"]
        else:
            env[k] = v
    env["COXETER_VERIF_PINNED"] = "1"
    os.execve(sys.executable, [sys.executable, os.path.abspath(__file__)] + sys.argv[1:], env)


def setup_path():
    repo = os.environ.get("COXETER_VERIF_SRC", "/repo")
    sys.path.insert(0, repo)
    if HERE not in sys.path:
        sys.path.insert(1, HERE)
    import warnings

    warnings.simplefilter("ignore")
    import numpy as np

    np.seterr(all="ignore")
    import coxeter

    src = os.path.realpath(os.path.dirname(os.path.dirname(coxeter.__file__)))
    if src != os.path.realpath(repo):
        print("HARNESS-ERROR coxeter imported from %s, expected %s" % (src, repo))
        sys.exit(2)
    return repo


def selfcheck():
    repo = setup_path()
    from sim import engine, seams  # noqa: F401
    from sim.seams import World
    import tempfile
    import shutil

    d = tempfile.mkdtemp(prefix="cxv-self-")
    try:
        os.chdir(d)
        w = World(d)
        with w.step(1, 2, fs_plan=[{"on": "write", "nth": 0, "kind": "short"}], bufsize=16):
            with open("x.txt", "w") as f:
                f.write("hello world, this is the seam self check\n" * 4)
            import time as _t

            _t.time()
        assert bytes(w.fs.files["x.txt"]).decode().count("hello") == 4
        assert w.clock.reads == 1 and w.fs.faults_fired["fs.write.short"] == 1
        assert not os.path.exists(os.path.join(d, "x.txt"))
        for p in ("c03", "c08", "c13", "c16", "c20"):
            try:
                engine.load_machine(p)
            except ModuleNotFoundError:
                pass
    finally:
        os.chdir(HERE)
        shutil.rmtree(d, ignore_errors=True)
    print("selfcheck ok: coxeter from %s, seams install/remove cleanly" % repo)
    return 0


def do_replay(prop, path, keep_events=False):
    from sim import engine

    with open(path) as f:
        rep = json.load(f)
    machine = engine.load_machine(prop)
    res = engine.run_one(machine, rep["spec"], keep_events=keep_events)
    if res["harness"]:
        print("HARNESS-ERROR during replay: %s" % res["harness"])
        return 2
    want = rep.get("sig_hash")
    hashes = [v["hash"] for v in res["violations"]]
    for v in res["violations"]:
        print("  violation %s %s :: %s" % (v["hash"], json.dumps(v["sig"], sort_keys=True),
                                          v["detail"]))
    if keep_events:
        for ev in res["events"]:
            print("  ev", json.dumps(ev, default=repr))
    if want in hashes or (want is None and hashes):
        print("REPRODUCED signature=%s digest=%s" % (want, res["digest"]))
        print("VIOLATION property=%s replay=%s" % (prop, path))
        return 1
    print("NOT-REPRODUCED signature=%s (got %s) digest=%s" % (want, hashes, res["digest"]))
    return 0


def _shrink_task(args):
    prop, spec, want, cap = args
    from sim import engine, shrink

    machine = engine.load_machine(prop)
    return shrink.minimise(machine, spec, want, cap)


def main():
    ap = argparse.ArgumentParser()
    ap.add_argument("prop", nargs="?")
    ap.add_argument("--tier", default=os.environ.get("VERIF_TIER", "quick"))
    ap.add_argument("--replay")
    ap.add_argument("--selfcheck", action="store_true")
    ap.add_argument("--keep-events", action="store_true")
    ap.add_argument("--no-evidence", action="store_true")
    ap.add_argument("--digests", nargs=2, type=int, metavar=("START", "COUNT"),
                    help="print per-run digests as JSON (determinism self-test)")
    args = ap.parse_args()
    reexec_pinned()
    if args.selfcheck:
        return selfcheck()
    prop = args.prop.upper()
    setup_path()
    from sim import engine, evidence, findings

    if args.replay:
        return do_replay(prop, args.replay, args.keep_events)

    tier = args.tier if args.tier in ("quick", "thorough") else "quick"
    seed = int(os.environ.get("VERIF_SEED", "0"))
    if args.digests:
        workers = int(os.environ.get("VERIF_WORKERS", "1"))
        print(json.dumps(engine.digests(prop, tier, seed, args.digests[0], args.digests[1],
                                        workers)))
        return 0
    # one scratch directory for everything this check starts (run workers, shrink workers);
    # forked pool workers leave through os._exit, so their atexit handlers never run
    import shutil
    import tempfile

    scratch = tempfile.mkdtemp(prefix="cxv-")
    os.environ["COXETER_VERIF_SANDBOX"] = scratch
    try:
        return _explore_and_report(args, prop, tier, seed, engine, evidence, findings)
    finally:
        shutil.rmtree(scratch, ignore_errors=True)


def _explore_and_report(args, prop, tier, seed, engine, evidence, findings):
    t0 = time.time()
    print("check %s tier=%s VERIF_SEED=%d src=%s" % (prop, tier, seed, engine.REPO), flush=True)
    machine, agg = engine.explore(prop, tier, seed)
    known = findings.load()
    os.makedirs(os.path.join(HERE, "replays"), exist_ok=True)

    new, hits = [], []
    for h in sorted(agg["violations"]):
        slot = agg["violations"][h]
        entry = findings.match(slot["sig"], known)
        (hits if entry else new).append((h, slot, entry))

    # minimise the unlisted ones (bounded), in parallel
    cap = machine.TIERS[tier].get("shrink_cap_s", 60)
    max_min = int(os.environ.get("VERIF_MAX_MINIMISED") or
                  machine.TIERS[tier].get("max_minimised", 10))
    to_min = new[:max_min]
    shrunk = {}
    if to_min:
        import multiprocessing
        from concurrent.futures import ProcessPoolExecutor

        ctx = multiprocessing.get_context("fork")
        with ProcessPoolExecutor(max_workers=min(len(to_min), agg["workers"]),
                                 mp_context=ctx) as pool:
            tasks = [(prop, slot["example"]["spec"], h, cap) for h, slot, _ in to_min]
            for (h, slot, _), out in zip(to_min, pool.map(_shrink_task, tasks)):
                shrunk[h] = out

    exit_code = 0
    reported = []
    for h, slot, _ in new:
        spec, st = shrunk.get(h, (slot["example"]["spec"], {"tests": 0, "reproduced": None}))
        path = os.path.join(HERE, "replays", "%s-%s.json" % (prop, h))
        rep = {"property": prop, "signature": slot["sig"], "sig_hash": h,
               "detail": slot["example"]["detail"], "seed": seed,
               "index": slot["example"]["index"], "count_in_batch": slot["count"],
               "original_steps": slot["example"]["size"],
               "minimised_steps": len(spec.get("steps", [])), "shrink": st, "spec": spec}
        with open(path, "w") as f:
            json.dump(rep, f, indent=1, sort_keys=True)
        # replay in a fresh interpreter; must reproduce the same signature
        env = dict(os.environ)
        p1 = subprocess.run([sys.executable, os.path.abspath(__file__), prop, "--replay", path],
                            capture_output=True, text=True, env=env, timeout=600)
        ok = ("REPRODUCED signature=%s" % h) in p1.stdout
        dig = [ln for ln in p1.stdout.splitlines() if ln.startswith("REPRODUCED")]
        print("  signature %s x%d %s" % (h, slot["count"], json.dumps(slot["sig"], sort_keys=True)))
        print("    detail: %s" % slot["example"]["detail"])
        print("    steps %d -> %d, shrink tests %s, fresh-interpreter replay %s %s" % (
            slot["example"]["size"], len(spec.get("steps", [])), st.get("tests"),
            "reproduced" if ok else "NOT reproduced", dig[0].split()[-1] if dig else ""))
        print("VIOLATION property=%s replay=%s" % (prop, path), flush=True)
        reported.append({"hash": h, "sig": slot["sig"], "count": slot["count"], "replay": path,
                         "replay_reproduced": ok})
        exit_code = 1
    for h, slot, entry in hits:
        print("KNOWN-FINDING: property=%s %s [signature %s x%d]" % (
            prop, entry.get("what", ""), h, slot["count"]), flush=True)

    for herr in agg["harness"][:5]:
        print("HARNESS-%s run index %s: %s" % (
            "TIMEOUT" if herr["what"] == "timeout" else "ERROR", herr["index"],
            herr["what"][-800:]), flush=True)
    if agg["harness"] and exit_code == 0:
        exit_code = 2

    wall = time.time() - t0
    if not args.no_evidence:
        evidence.write(prop, tier, seed, machine, agg, reported,
                       [{"hash": h, "what": e.get("what"), "count": s["count"]}
                        for h, s, e in hits], wall)
    print("%s %s: runs=%d steps=%d distinct_nontrivial=%d violations=%d known=%d harness=%d "
          "wall=%.1fs (%.0f runs/h)" % (
              prop, tier, agg["runs"], agg["counters"].get("steps", 0),
              len(agg["digests_nontrivial"]), len(new), len(hits), len(agg["harness"]), wall,
              agg["runs"] / max(wall, 1e-9) * 3600), flush=True)
    return exit_code


if __name__ == "__main__":
    sys.exit(main())
